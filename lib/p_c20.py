"""C20 — control actions through the API respect the state of the run.

Generated sequences of API actions (present / missing / wrong arguments) against the real handler over
real stores (go/harness/api) and against the Lean model (`driver api`); after every action the whole
world is dumped on both sides and compared; an independent Python monitor checks the property clauses
on the implementation's dumps alone."""
import hashlib, json, subprocess
import common

TIE = {"Api": ["h_api_handler_postAction", "h_api_handler_processUpdateStatus", "h_api_client_GetStatus",
               "h_api_client_GetLatestStatus", "h_api_client_currentStatus", "h_api_client_GetStatusByRequestID",
               "h_api_client_StartAsync", "h_api_client_Start", "h_api_client_Stop", "h_api_client_Retry",
               "h_api_client_UpdateStatus", "h_api_client_ToggleSuspend", "h_api_client_UpdateDAG", "h_api_client_Rename",
               "h_api_client_escapeArg", "h_api_model_CorrectRunningStatus", "h_api_jsondb_Update", "h_api_cmd_removeQuotes",
               "h_api_dagstore_Rename", "h_api_dagstore_UpdateSpec", "h_api_flagstore_ToggleSuspend", "h_api_jsondb_FindByRequestID"],
       # every guard of the API reads the live run's answer on its status socket: Agent.HandleHTTP / Agent.Status
       "Agent": ["h_agent_Agent_HandleHTTP", "h_agent_Agent_Status"]}

POOL = ["d0", "d1", "d2", "d3"]


def run_driver_retry(mode, text, timeout=600):
    """the driver binary is re-linked by concurrent builds of other checks: wait for it instead of failing"""
    import time
    last = None
    for _ in range(60):
        try:
            return common.run_driver(mode, text, timeout=timeout)
        except OSError as e:      # missing / text file busy while `lake build driver` runs elsewhere
            last = e
            time.sleep(1)
    raise last


def _steps(names, deps=None):
    out = "steps:\n"
    for n in names:
        out += "  - name: %s\n    command: echo %s\n" % (n, n)
        if deps and n in deps:
            out += "    depends:\n" + "".join("      - %s\n" % d for d in deps[n])
    return out


# (content, yamlOk, graphOk)
SPECS = [
    (_steps(["s1", "s2"]), 1, 1),
    (_steps(["s1", "s2", "s3"], {"s2": ["s1"], "s3": ["s2"]}), 1, 1),
    ("description: third\n" + _steps(["s1"]), 1, 1),
    (_steps(["s1", "s2"], {"s1": ["s2"], "s2": ["s1"]}), 1, 0),       # loads, graph is cyclic
    ("steps: [", 0, 0),                                               # not YAML
    ("", 1, 1),                                                       # empty definition: loads as a DAG without steps
]
V, CYC, BROKEN, EMPTY = (0, 1, 2), 3, 4, 5
SHA = {hashlib.sha1(s[0].encode()).hexdigest()[:12]: i for i, s in enumerate(SPECS)}
PARAMS = ["", "x", "a b", 'a "b c"', "k=v", '"q"', "é ü", "p1 p2 p3", "'single'", "tab\there", "$HOME `id`",
          'trailing"', '"']
PARAMS_LB = ["x\ny", "a\r\nb"]
NODE_TEXT = {0: "not started", 1: "running", 2: "failed", 3: "canceled", 4: "finished", 5: "skipped"}
STATUS_TEXT = {0: "not started", 1: "running", 2: "failed", 3: "canceled", 4: "finished"}
STATE = {4: "finished", 2: "failed", 3: "canceled", 1: "crashed", 0: "not-started"}
ACTIONS = ["start", "stop", "retry", "suspend", "mark-success", "mark-failed", "save", "rename"]


def num(s):
    """request ids r<k> / step names s<k> / dag names d<k> as numbers; "" = 0"""
    return int(s[1:]) if s else 0


def cps(s):
    return ",".join(str(ord(ch)) for ch in s) if s else "-"


def gen_case(rng, k):
    dags, reqn, used = [], [0], set()

    def newreq():
        reqn[0] += 1
        return "r%d" % reqn[0]

    nd = rng.randint(2, 3)
    for name in POOL[:nd]:
        r = rng.random()
        spec = rng.choice(V) if r < 0.86 else (CYC if r < 0.93 else (BROKEN if r < 0.97 else EMPTY))
        d = {"name": name, "spec": SPECS[spec][0], "specIdx": spec, "susp": rng.random() < 0.25, "runs": [], "live": ""}
        ago = rng.randint(5, 20)
        for _ in range(rng.choice([0, 1, 1, 2, 2, 3])):
            names = ["s1", "s2", "s3"][:rng.randint(1, 3)]
            if rng.random() < 0.08 and len(names) > 1:
                names[-1] = names[0]                      # duplicate step name in a record
            st = rng.choice([4, 4, 2, 3, 1])
            while ago in used:          # start times are unique over the whole case (rename merges histories)
                ago += 1
            used.add(ago)
            d["runs"].append({"ago": ago, "req": newreq(), "status": st, "params": rng.choice(PARAMS),
                              "nodes": [{"name": n, "status": rng.choice([4, 4, 2, 3, 1, 0, 5])} for n in names]})
            ago += rng.randint(3, 40)
        if rng.random() < 0.35:
            newest = d["runs"][0] if d["runs"] else None
            d["live"] = newest["req"] if newest and newest["status"] == 1 and rng.random() < 0.7 else newreq()
        dags.append(d)
    allreqs = [r["req"] for d in dags for r in d["runs"]]
    ops = []
    for _ in range(rng.randint(8, 12)):
        if rng.random() < 0.12:
            d = rng.choice(dags)
            ops.append({"op": "live", "dag": d["name"], "req": "" if rng.random() < 0.5 else newreq()})
            continue
        dname = rng.choice([d["name"] for d in dags]) if rng.random() < 0.9 else rng.choice(POOL)
        own = [r for d in dags if d["name"] == dname for r in d["runs"]]
        r = rng.random()
        action = rng.choice(ACTIONS) if r < 0.9 else (None if r < 0.94 else rng.choice(["bogus", "START", "delete", ""]))
        if rng.random() < 0.35:
            action = rng.choice(["mark-success", "mark-failed"])
        op = {"op": "post", "dag": dname, "action": action, "value": "", "requestId": "", "step": "", "params": ""}
        r = rng.random()
        if own and r < 0.7:
            run = rng.choice(own)
            op["requestId"] = run["req"]
            op["step"] = rng.choice([n["name"] for n in run["nodes"]]) if rng.random() < 0.85 else rng.choice(["s9", ""])
        elif r < 0.8 and allreqs:
            op["requestId"] = rng.choice(allreqs); op["step"] = rng.choice(["s1", "s2", ""])
        elif r < 0.9:
            op["requestId"] = "r99"; op["step"] = "s1"
        else:
            op["step"] = rng.choice(["s1", ""])
        if action == "start":
            op["params"] = rng.choice(PARAMS) if rng.random() < 0.93 else rng.choice(PARAMS_LB)
        if action == "suspend":
            op["value"] = rng.choice(["true", "true", "false", "1", ""])
        if action == "save":
            op["value"] = SPECS[rng.choice(list(V) + [CYC, BROKEN, EMPTY, V[0]])][0]
        if action == "rename":
            op["value"] = rng.choice(POOL + [dname, ""])
        op["via"] = "http" if (action in ACTIONS and rng.random() < 0.6) else "direct"
        ops.append(op)
    return {"id": "c%d" % k, "pool": POOL, "dags": dags, "ops": ops}


def driver_lines(c):
    """protocol lines for the model; returns (lines, indices of the lines whose answers are compared)"""
    L = ["reset"]
    rest = 0
    for d in c["dags"]:
        i = num(d["name"])
        s = d["specIdx"]
        L.append("dag %d %d,%d,%d" % (i, s + 1, SPECS[s][1], SPECS[s][2]))
        if d["susp"]:
            L.append("susp %d 1" % i)
        for r in d["runs"]:
            rest += 1
            r["restnum"] = rest
            L.append("run %d %d %d %d %d %s" % (i, 100000 - r["ago"], num(r["req"]), r["status"], rest,
                                               ",".join("%d:%d" % (num(n["name"]), n["status"]) for n in r["nodes"]) or "-"))
        if d["live"]:
            L.append("live %d %d" % (i, num(d["live"])))
    marks = [len(L)]
    L.append("dump %d" % len(POOL))
    for op in c["ops"]:
        if op["op"] == "live":
            L.append("live %d %s" % (num(op["dag"]), num(op["req"]) if op["req"] else "-"))
            marks.append(None)
        else:
            a = op["action"]
            act = "-" if a is None else (a if a in ACTIONS else "unknown")
            sp = "1,1,1"
            if a == "save":
                k = [s[0] for s in SPECS].index(op["value"])
                sp = "%d,%d,%d" % (k + 1, SPECS[k][1], SPECS[k][2])
            tgt = str(num(op["value"])) if (a == "rename" and op["value"]) else "-"
            L.append("post %d %s %d %d %s %d %s %s" % (num(op["dag"]), act, num(op["requestId"]), num(op["step"]), cps(op["params"]),
                                                      1 if op["value"] == "true" else 0, sp, tgt))
            marks.append(len(L) - 1)
        marks.append(len(L))
        L.append("dump %d" % len(POOL))
    return L, marks


def canon_impl_dump(c, dmp, resttab):
    """implementation dump in the driver's dump syntax (without the live= field)"""
    parts = []
    for name in POOL:
        o = dmp["dags"][name]
        if o["exists"]:
            k = SHA.get(o["sha"])
            sp = "%d/%d/%d" % (k + 1, SPECS[k][1], SPECS[k][2]) if k is not None else "?" + o["sha"]
        else:
            sp = "-"
        hs = []
        for r in o["hist"] or []:
            ts, rn = resttab.get(r["rest"], ("?", "?" + r["rest"]))
            hs.append("%s/%d/%d/%s/%s" % (ts, num(r["req"]), r["status"], rn,
                                         ",".join("%d:%d" % (num(n["name"]), n["status"]) for n in r["nodes"]) or "-"))
        parts.append("D %d spec=%s susp=%d hist=%s" % (num(name), sp, 1 if o["susp"] else 0, ";".join(hs) or "-"))
    cmds = []
    for a in dmp["argv"] or []:
        dn = num(a[-1].rsplit("/", 1)[1][:-5])
        if a[0] == "start":
            cmds.append("start:%d:%s" % (dn, cps(a[2]) if len(a) == 4 else "none"))
        elif a[0] == "retry":
            cmds.append("retry:%d:%d" % (dn, num(a[1][len("--req="):])))
        else:
            cmds.append("?" + " ".join(a))
    return " | ".join(parts), cmds, ["stop:%d" % num(s) for s in dmp["stops"] or []]


def canon_model_dump(line):
    parts = [p.strip() for p in line.split(" | ")]
    ds = [" ".join(t for t in p.split(" ") if not t.startswith("live=")) for p in parts[:-1]]
    log = parts[-1][len("log="):]
    cmds = [] if log == "-" else log.split(" ")
    return " | ".join(ds), [x for x in cmds if not x.startswith("stop:")], [x for x in cmds if x.startswith("stop:")]


def dag_state(dmp, live, name):
    if live.get(name):
        return "running"
    o = dmp["dags"].get(name)
    if o is None or not o["exists"]:
        return "missing"
    if not o["hist"]:
        return "never-run"
    return STATE.get(o["hist"][0]["status"], "?")


def strip_quotes(s):
    return s[1:-1] if len(s) > 1 and s[0] == '"' and s[-1] == '"' else s


def monitor(op, code, before, after, live):
    """property clauses on the implementation alone; returns list of (signature, what)"""
    out = []
    a = op["action"]
    an = a if a in ACTIONS else ("missing" if a is None else "unknown")
    running = bool(live.get(op["dag"]))
    noview = lambda d: {k: v for k, v in d.items() if k != "view"}
    if code >= 400 and noview(before) != noview(after):
        diff = [k for k in ("argv", "stops", "extra") if before[k] != after[k]] + [n for n in POOL if before["dags"][n] != after["dags"][n]]
        out.append(("C20:refused-action-changed-world:" + an, "code %d but %s changed" % (code, diff)))
    if a == "start" and running and code < 400:
        out.append(("C20:start-accepted-while-running", "start answered %d while the DAG's socket answers running" % code))
    if a == "stop" and not running and code < 400:
        out.append(("C20:stop-accepted-while-not-running", "stop answered %d while nothing is running" % code))
    if a in ("mark-success", "mark-failed") and running and code < 400:
        out.append(("C20:edit-accepted-while-running", "%s answered %d while the DAG is running" % (a, code)))
    malformed = (a is None or a not in ACTIONS or (a == "retry" and not op["requestId"]) or (a == "rename" and not op["value"])
                 or (a in ("mark-success", "mark-failed") and (not op["requestId"] or not op["step"])))
    if malformed and not 400 <= code < 500:
        out.append(("C20:malformed-action-not-4xx:" + an, "answered %d" % code))
    if a in ("mark-success", "mark-failed") and code == 200:
        to = 4 if a == "mark-success" else 2
        bad = []
        for k in ("argv", "stops", "extra"):
            if before[k] != after[k]:
                bad.append(k + " changed")
        for n in POOL:
            b, f = before["dags"][n], after["dags"][n]
            if n != op["dag"]:
                if b != f: bad.append("DAG %s changed" % n)
                continue
            if (b["exists"], b["sha"], b["susp"]) != (f["exists"], f["sha"], f["susp"]):
                bad.append("definition / flag changed")
            bh, fh = b["hist"] or [], f["hist"] or []
            if len(bh) != len(fh):
                bad.append("number of runs changed"); continue
            changed = [i for i in range(len(bh)) if bh[i] != fh[i]]
            first = [i for i in range(len(bh)) if bh[i]["req"] == op["requestId"]][:1]
            if changed != first:
                bad.append("runs %s changed, addressed run is %s" % (changed, first)); continue
            x, y = bh[first[0]], fh[first[0]]
            if (x["file"], x["req"], x["rest"]) != (y["file"], y["req"], y["rest"]) or y["lines"] != x["lines"] + 1:
                bad.append("run identity / other content changed")
            if not (y["status"] == x["status"] or (x["status"] == 1 and y["status"] == 2)) or y["text"] != STATUS_TEXT.get(y["status"]):
                bad.append("run status %s/%s -> %s/%s" % (x["status"], x["text"], y["status"], y["text"]))
            if [n_["name"] for n_ in x["nodes"]] != [n_["name"] for n_ in y["nodes"]]:
                bad.append("node list changed"); continue
            idx = [i for i, n_ in enumerate(x["nodes"]) if n_["name"] == op["step"]]
            if not idx:
                bad.append("no such step, yet accepted"); continue
            for i, (p, q) in enumerate(zip(x["nodes"], y["nodes"])):
                if i == idx[-1]:
                    if q["status"] != to or q["text"] != NODE_TEXT[to]:
                        bad.append("addressed node is %s/%s" % (q["status"], q["text"]))
                elif p != q:
                    bad.append("node %d (%s) changed" % (i, p["name"]))
        if bad:
            out.append(("C20:edit-not-exact:" + a, "; ".join(bad)))
    if a == "start" and code == 200:
        new = (after["argv"] or [])[len(before["argv"] or []):]
        rest_same = all(before["dags"][n] == after["dags"][n] for n in POOL) and before["stops"] == after["stops"]
        p = op["params"]
        if len(new) != 1 or not rest_same:
            out.append(("C20:start-side-effects", "spawned %s, rest unchanged: %s" % (new, rest_same)))
        elif "\n" not in p and "\r" not in p:
            argv = new[0]
            got = strip_quotes(argv[2]) if len(argv) == 4 and argv[1] == "-p" else ("" if len(argv) == 2 else None)
            if argv[0] != "start" or got != p or not argv[-1].endswith("/" + op["dag"] + ".yaml"):
                out.append(("C20:start-params-changed", "given %r, spawned argv %r" % (p, argv)))
    return out


def view_monitor(dmp, live):
    """what the long-lived client answers for every recorded run = what the files hold (C06's look-up clause seen
       through the API's client and its read cache); the one sanctioned difference: a run recorded as running whose
       process is gone may be shown as failed"""
    out = []
    for name, v in (dmp.get("view") or {}).items():
        hist = [h for h in (dmp["dags"][name]["hist"] or []) if h["req"]]
        def same(h, r):
            if r.get("err") or r["req"] != h["req"]:
                return False
            if [n["status"] for n in (h["nodes"] or [])] != (r["nodes"] or []):
                return False
            return r["status"] == h["status"] or (h["status"] == 1 and r["status"] == 2 and live.get(name) != h["req"])
        seen = set()
        for h, r in zip(hist, v.get("byreq") or []):
            if h["req"] in seen:
                continue
            seen.add(h["req"])
            if not same(h, r):
                out.append(("api-view:lookup-by-request-id-differs-from-the-recorded-status",
                            "DAG %s run %s: recorded status %s nodes %s, the client answers %s" % (
                                name, h["req"], h["status"], [n["status"] for n in (h["nodes"] or [])], r)))
                break
        rec = v.get("recent") or []
        byreq = {}
        for h in hist:
            byreq.setdefault(h["req"], h)
        for r in rec:
            h = byreq.get(r["req"])
            if h is None or not same(h, r):
                out.append(("api-view:recent-history-differs-from-the-recorded-status",
                            "DAG %s run %s: recorded %s, recent history shows %s" % (name, r["req"], h and (h["status"], [n["status"] for n in (h["nodes"] or [])]), r)))
                break
    return out


def frozen_agent_stream(chk, binh, only=None, view_only=False):
    """an edit that passes the handler's guards and is refused INSIDE client.UpdateStatus (the agent's socket accepts and
       never answers: a frozen agent): refused = nothing changes, neither on file nor in what the API's long-lived client
       answers afterwards; the next accepted edit of another step changes exactly that step. Judged by the monitors
       only (the Lean model has no frozen agent)."""
    rng = chk.rng
    if only is not None:
        cases = [only]
    else:
        cases = []
        for k in range(1 if chk.tier == "quick" else 4):
            nodes = [{"name": "s1", "status": rng.choice([4, 2])}, {"name": "s2", "status": rng.choice([4, 2, 3])}, {"name": "s3", "status": 4}][:rng.randint(2, 3)]
            # both edits really change their step
            a1 = "mark-failed" if nodes[0]["status"] == 4 else "mark-success"
            a2 = "mark-failed" if nodes[1]["status"] == 4 else ("mark-success" if nodes[1]["status"] == 2 else rng.choice(["mark-success", "mark-failed"]))
            via = rng.choice(["http", "direct"])
            cases.append({"id": "frozen%d" % k, "pool": POOL, "frozen": True,
                          "dags": [{"name": "d0", "spec": SPECS[0][0], "specIdx": 0, "susp": False, "live": "",
                                    "runs": [{"ago": 30, "req": "r1", "status": rng.choice([4, 2]), "params": "", "nodes": nodes}]},
                                   {"name": "d1", "spec": SPECS[0][0], "specIdx": 0, "susp": False, "live": "", "runs": []}],
                          "ops": [{"op": "live", "dag": "d0", "req": "!hung"},
                                  {"op": "post", "dag": "d0", "action": a1, "value": "", "requestId": "r1", "step": "s1", "params": "", "via": via},
                                  {"op": "live", "dag": "d0", "req": ""},
                                  {"op": "post", "dag": "d1", "action": "bogus", "value": "", "requestId": "", "step": "", "params": "", "via": "direct"},
                                  {"op": "post", "dag": "d0", "action": a2, "value": "", "requestId": "r1", "step": "s2", "params": "", "via": via}]})
    p = subprocess.run([binh], input="\n".join(json.dumps(c) for c in cases) + "\n", stdout=subprocess.PIPE,
                       stderr=subprocess.PIPE, text=True, timeout=600)
    if p.returncode != 0:
        chk.oblige("harness-run:api-frozen", False, p.stderr[-2000:]); return
    n = 0
    for c, line in zip(cases, p.stdout.strip().split("\n")):
        r = json.loads(line)
        if r.get("err"):
            chk.oblige("harness-case:%s" % c["id"], False, r["err"]); continue
        live = {d["name"]: d["live"] for d in c["dags"]}
        snaps = [r["init"]] + [s_["dump"] for s_ in r["steps"]]
        for k, op in enumerate(c["ops"]):
            before, after, st = snaps[k], snaps[k + 1], r["steps"][k]
            if op["op"] == "live":
                live[op["dag"]] = "" if op["req"] == "!hung" else op["req"]
                continue
            n += 1; chk.evaluations += 1
            chk.nontrivial.add(("frozen", op["action"], st["code"] // 100))
            for sig, what in ([] if view_only else monitor(op, st["code"], before, after, live)):
                chk.violation(sig + ":frozen-agent", "%s on %s: %s" % (op["action"], op["dag"], what), dict(c, ops=c["ops"][:k + 1]))
            for sig, what in view_monitor(after, live):
                chk.violation(chk.prop + ":" + sig + ":after-an-edit-refused-by-a-frozen-agent", what, dict(c, ops=c["ops"][:k + 1]))
    chk.stats = dict(chk.stats or {}, frozen_agent_actions=n)


def run(chk, replay):
    if replay and json.load(open(replay)).get("case", {}).get("frozen"):
        binh, out = common.build_harness("api")
        frozen_agent_stream(chk, binh, only=json.load(open(replay))["case"]); return
    if replay and "agent_case" in json.load(open(replay)).get("case", {}):
        import p_c08
        p_c08.liveness_stream(chk, "C20", 0, only=json.load(open(replay))["case"]["agent_case"]); return
    chk.trusted = common.TRUSTED_COMMON + ["the stub executable (records argv) and the fake live run (sock.Server answering `running`)"]
    chk.assumptions = ["request ids are unique among a DAG's runs (the model takes the newest match, as the code does)",
                       "parameters handed over by the API contain no CR/LF (escapeArg rewrites them; outside the documented syntax, F25)",
                       "the spawned command's own parsing of the parameter string is C11's subject",
                       "no other process changes the socket between the handler's status lookup and its action (TOCTOU not modelled)"]
    common.lean_obligations(chk, "BdModel/Props/C20.lean", TIE)
    binh, out = common.build_harness("api")
    if not binh:
        chk.oblige("harness-build:api", False, out[-3000:]); return
    chk.oblige("harness-build:api", True)
    rng = chk.rng
    if replay:
        cases = [json.load(open(replay))["case"]]
    else:
        cases = [gen_case(rng, k) for k in range(150 if chk.tier == "quick" else 1500)]
    p = subprocess.run([binh], input="\n".join(json.dumps(c) for c in cases) + "\n", stdout=subprocess.PIPE,
                       stderr=subprocess.PIPE, text=True, timeout=3000)
    if p.returncode != 0:
        chk.oblige("harness-run:api", False, p.stderr[-2000:]); return
    results = [json.loads(l) for l in p.stdout.strip().split("\n")]
    alll, allmarks = [], []
    for c in cases:
        L, marks = driver_lines(c)
        allmarks.append((len(alll), marks))
        alll += L
    rc, dout, derr = run_driver_retry("api", "\n".join(alll) + "\n")
    if rc != 0:
        chk.oblige("driver-run:api", False, derr[-2000:]); return
    dl = dout.strip().split("\n")
    if len(dl) != len(alll):
        chk.oblige("correspondence:api-output-count", False, "%d vs %d" % (len(dl), len(alll))); return
    dis = 0
    dist, codes = {}, {}
    for c, r, (base, marks) in zip(cases, results, allmarks):
        if r.get("err"):
            chk.oblige("harness-case:%s" % c["id"], False, r["err"]); continue
        # table: rest hash -> (ts, rest number), from the initial dump (runs newest first = ago ascending)
        resttab = {}
        for d in c["dags"]:
            ih = r["init"]["dags"][d["name"]]["hist"] or []
            for run_, o in zip(sorted(d["runs"], key=lambda x: x["ago"]), ih):
                resttab[o["rest"]] = (100000 - run_["ago"], run_["restnum"])
        live = {d["name"]: d["live"] for d in c["dags"]}
        snaps = [r["init"]] + [s["dump"] for s in r["steps"]]
        # marks: [initdump, (post|None, dump)*]
        mi = 1
        ok_case = True
        if canon_impl_dump(c, snaps[0], resttab) != canon_model_dump(dl[base + marks[0]]):
            ok_case = False
            detail = "initial world differs: impl=%s model=%s" % (canon_impl_dump(c, snaps[0], resttab), canon_model_dump(dl[base + marks[0]]))
        for k, op in enumerate(c["ops"]):
            pm, dm = marks[mi], marks[mi + 1]
            mi += 2
            before, after, st = snaps[k], snaps[k + 1], r["steps"][k]
            if op["op"] == "live":
                live[op["dag"]] = op["req"]
                continue
            chk.evaluations += 1
            a = op["action"]
            an = a if a in ACTIONS else ("missing" if a is None else "unknown")
            state = dag_state(before, live, op["dag"])
            key = (an, state, st["code"])
            dist[an + "@" + state] = dist.get(an + "@" + state, 0) + 1
            codes[str(st["code"])] = codes.get(str(st["code"]), 0) + 1
            chk.nontrivial.add(key + (op["via"], bool(op["requestId"]), bool(op["step"])))
            for sig, what in monitor(op, st["code"], before, after, live):
                chk.violation(sig, "%s on %s (%s): %s" % (an, op["dag"], state, what), dict(c, ops=c["ops"][:k + 1]))
            for sig, what in view_monitor(after, live):
                chk.violation(chk.prop + ":" + sig + (":after-refused-" + an if st["code"] >= 400 else ":after-" + an), "after %s on %s (%s, code %d): %s" % (an, op["dag"], state, st["code"], what), dict(c, ops=c["ops"][:k + 1]))
            if ok_case:
                mcode = int(dl[base + pm].split()[1])
                mnew = dl[base + pm].split("new=")[1]
                icls, mcls = st["code"] // 100, mcode // 100
                inew = str(num(st["newDagId"])) if st["newDagId"] else "-"
                im, mm = canon_impl_dump(c, after, resttab), canon_model_dump(dl[base + dm])
                if icls != mcls or im != mm or (icls == 2 and inew != mnew):
                    ok_case = False
                    detail = "op #%d %s: impl code %d new=%s, model %s; impl dump %s ; model dump %s" % (
                        k, json.dumps(op), st["code"], inew, dl[base + pm], im, mm)
        if not ok_case:
            dis += 1; chk.disagreements += 1
            if dis <= 3:
                chk.oblige("correspondence:api:%s" % c["id"], False, detail + " case=" + json.dumps(c)[:3000])
        if len(chk.samples) < 3:
            chk.samples.append({"case": c["id"], "ops": [(o.get("action"), o["dag"]) for o in c["ops"] if o["op"] == "post"],
                                "codes": [s["code"] for s, o in zip(r["steps"], c["ops"]) if o["op"] == "post"]})
    chk.disagreements_checked = chk.disagreements
    if dis == 0:
        chk.oblige("correspondence:api (response class + full world dump after every action, impl = model)", True)
    chk.stats = {"cases": len(cases), "action@state": dict(sorted(dist.items())), "codes": codes}
    if not replay:
        frozen_agent_stream(chk, binh)
    if not replay:
        import p_c08
        p_c08.liveness_stream(chk, "C20", 30 if chk.tier == "quick" else 300)
    chk.rule = ("2-3 DAGs (valid / cyclic / unparsable / empty definition), 0-3 recorded runs each (finished, failed, canceled, "
                "recorded-as-running), live run on or off (toggled mid-sequence); 8-12 actions per case over all 8 action kinds + missing + "
                "unknown action, request id / step present, foreign, unknown or empty; through the generated router or straight into the "
                "configured operation handler; non-trivial = every API action; distinct = (action, state, code, route, args present)")
