"""C17 — no API request gets through without valid credentials when auth is on."""
import base64, json, subprocess
import common

TIE = {"Auth": ["h_mw_SetupGlobalMiddleware", "h_mw_prefixChecker", "h_mw_isAuthenticated", "h_mw_withAuthenticated",
                "h_mw_cors", "h_mw_BasicAuth", "h_mw_skipBasicAuth", "h_mw_TokenAuth", "h_mw_skipTokenAuth",
                "wrapOrder", "skipBasicCond"]}

SECRETS = [b"admin", b"secret", b"p:q", b"pass word", b"P@ss", b"pass", b"passw", b"", b"tok", b"token123", b"tok en",
           b"\xc3\xa9t\xc3\xa9", b"a", b"Bearer", b"Basic"]


def hx(b):
    return b.hex() if b else "-"


def b64(b):
    return base64.b64encode(b)


def headers_for(rng, user, pw, tok):
    """(kind, header bytes or None); kind encodes how the header relates to the secrets"""
    H = []
    good_basic = b"Basic " + b64(user + b":" + pw)
    H.append(("none", None)); H.append(("empty", b""))
    H.append(("basic_ok", good_basic))
    H.append(("basic_lower_scheme", b"basic " + b64(user + b":" + pw)))
    H.append(("basic_upper_scheme", b"BASIC " + b64(user + b":" + pw)))
    H.append(("basic_wrongpass", b"Basic " + b64(user + b":" + pw + b"x")))
    H.append(("basic_casepass", b"Basic " + b64(user + b":" + pw.swapcase())) if pw.swapcase() != pw else ("none", None))
    H.append(("basic_prefixpass", b"Basic " + b64(user + b":" + pw[:-1])) if pw else ("none", None))
    H.append(("basic_wronguser", b"Basic " + b64(user + b"x:" + pw)))
    H.append(("basic_emptyuser", b"Basic " + b64(b":" + pw)))
    H.append(("basic_nocolon", b"Basic " + b64(user + pw)))
    H.append(("basic_badb64", b"Basic !!!" + b64(user + b":" + pw)))
    H.append(("basic_truncated", good_basic[:-2]))
    H.append(("basic_nopad", good_basic.rstrip(b"=")) if good_basic.endswith(b"=") else ("none", None))
    H.append(("basic_twospaces", b"Basic  " + b64(user + b":" + pw)))
    H.append(("basic_nospace", b"Basic" + b64(user + b":" + pw)))
    H.append(("basic_trailing", good_basic + b" x"))
    H.append(("bearer_ok", b"Bearer " + tok))
    H.append(("bearer_wrong", b"Bearer " + tok + b"x"))
    H.append(("bearer_prefix", b"Bearer " + tok[:-1]) if tok else ("none", None))
    H.append(("bearer_case", b"Bearer " + tok.swapcase()) if tok.swapcase() != tok else ("none", None))
    H.append(("bearer_emptyfield", b"Bearer "))
    H.append(("bearer_only", b"Bearer"))
    H.append(("bearer_twospaces", b"Bearer  " + tok))
    H.append(("bearer_lower_scheme", b"bearer " + tok))
    H.append(("bearer_trailing", b"Bearer " + tok + b" extra"))
    H.append(("token_under_basic", b"Basic " + tok))
    H.append(("token_other_scheme", b"Foo " + tok))
    H.append(("pass_under_bearer", b"Bearer " + pw))
    H.append(("b64creds_under_bearer", b"Bearer " + b64(user + b":" + pw)))
    H.append(("garbage", bytes(rng.randrange(33, 127) for _ in range(rng.randint(1, 30)))))
    H.append(("garbage_sp", b" ".join(bytes(rng.randrange(33, 127) for _ in range(rng.randint(0, 6))) for _ in range(rng.randint(1, 4)))))
    return [h for h in H if not (h[0] == "none" and h[1] is None and H.index(h) > 0)]


PATHS = [b"/api/v1/dags", b"/api", b"/api/v1/dags/x?y=1", b"/apix", b"/", b"/dags", b"/assets/a.js", b"/ap", b"/API/v1/dags"]
METHODS = ["GET", "POST", "PUT", "DELETE", "PATCH", "HEAD", "OPTIONS"]
NEITHER = {"none", "empty", "basic_wrongpass", "basic_casepass", "basic_prefixpass", "basic_wronguser", "basic_emptyuser",
           "basic_nocolon", "basic_badb64", "basic_truncated", "bearer_wrong", "bearer_prefix", "bearer_case",
           "bearer_emptyfield", "bearer_only", "garbage"}


def presents_secret(hasB, user, pw, hasT, tok, hdr):
    """independent reading of 'presents the configured password for the configured user or the configured token'"""
    if hdr is None:
        return False
    if hasB and len(hdr) >= 6 and hdr[:6].lower() == b"basic ":
        try:
            raw = base64.b64decode(hdr[6:], validate=True)
            if b":" in raw:
                u, p = raw.split(b":", 1)
                if u == user and p == pw:
                    return True
        except Exception:
            pass
    if hasT and tok != b"":
        f = hdr.split(b" ")
        if len(f) >= 2 and f[1] == tok:
            return True
    return False


def server_stream(chk, binp, only=None):
    """the REAL web server as `blackdagger server` builds it (config.Config -> frontend.New -> Server.Serve) on a loopback
    port: the configured secrets reach the middleware through that wiring. For every configuration (none / basic / token /
    both, empty secrets included) requests with no, wrong and right credentials on API paths: a request presenting neither
    secret must be answered 401, standard right credentials must not be"""
    rng = chk.rng
    cases = []
    if only is not None:
        cases = [only]
    else:
        k = 0
        for hasB, hasT in [(False, False), (True, False), (False, True), (True, True)]:
            for rep in range(2 if chk.tier == "quick" else 8):
                user, pw, tok = rng.choice(SECRETS[:5] + [b"a"]), rng.choice(SECRETS), rng.choice(SECRETS)
                if rep == 0 and hasT: tok = b""             # token auth switched on with an empty secret
                if rep == 1 and hasB: pw = b""
                base = rng.choice([b"", b"", b"/bd"])
                reqs = []
                for kind, hdr in headers_for(rng, user, pw, tok):
                    # the real server serves the API under /api/... whatever base path is configured (under <base>/api/...
                    # it answers with the UI's index page): API paths are given without the base
                    for path in (b"/api/v1/dags", rng.choice([b"/api/v1/dags/x", b"/api/v1/dags?x=1", b"/"])):
                        reqs.append({"id": "q%d" % len(reqs), "method": rng.choice(["GET", "GET", "POST", "DELETE"]), "path": path.hex(),
                                     "hasHdr": hdr is not None, "hdr": (hdr or b"").hex(), "kind": kind, "extra": []})
                cases.append({"id": "srv%d" % k, "hasBasic": hasB, "user": user.hex(), "pass": pw.hex(), "hasToken": hasT, "token": tok.hex(),
                              "base": base.hex(), "reqs": reqs}); k += 1
    p = subprocess.run([binp, "server"], input="\n".join(json.dumps(c) for c in cases) + "\n", stdout=subprocess.PIPE,
                       stderr=subprocess.PIPE, text=True, timeout=900)
    res = {}
    for l in p.stdout.strip().split("\n"):
        if l.strip():
            r = json.loads(l); res[r["id"]] = r["codes"]
    n = 0
    for c in cases:
        codes = res.get(c["id"])
        if not codes or len(codes) != len(c["reqs"]):
            chk.oblige("harness-run:auth-server:" + c["id"], False, "codes=%r stderr=%s" % (codes, p.stderr[-300:])); continue
        user, pw, tok = bytes.fromhex(c["user"]), bytes.fromhex(c["pass"]), bytes.fromhex(c["token"])
        authcfg = c["hasBasic"] or c["hasToken"]
        for q, code in zip(c["reqs"], codes):
            n += 1; chk.evaluations += 1
            path = bytes.fromhex(q["path"])
            if not path.startswith(b"/api"):
                continue
            hdr = bytes.fromhex(q["hdr"]) if q["hasHdr"] else None
            pres = presents_secret(c["hasBasic"], user, pw, c["hasToken"], tok, hdr)
            one = dict({kk: vv for kk, vv in c.items() if kk != "reqs"}, reqs=[q])
            if authcfg and not pres and code != 401:
                chk.violation("C17:server:no-secret-not-401:" + q["kind"], "the real server (basic %s, token %s%s) answered %d instead of 401 to a request presenting neither secret (header kind %s)" % (
                    c["hasBasic"], c["hasToken"], ", EMPTY token" if c["hasToken"] and not tok else "", code, q["kind"]), {"server_case": one})
            if authcfg and code == 401 and ((q["kind"] == "basic_ok" and c["hasBasic"] and b":" not in user) or
                                            (q["kind"] == "bearer_ok" and c["hasToken"] and tok and b" " not in tok)):
                chk.violation("C17:server:standard-credentials-refused:" + q["kind"], "the real server answered 401 to standard right credentials", {"server_case": one})
            if not authcfg and code == 401:
                chk.violation("C17:server:refused-without-auth-configured", "no auth configured but the real server answered 401", {"server_case": one})
    chk.stats = dict(getattr(chk, "stats", None) or {}, server_requests=n)


def run(chk, replay):
    chk.trusted = common.TRUSTED_COMMON + ["net/http header parsing and base64 re-implemented in Lean (validated differentially; decode∘encode = id proved)"]
    chk.assumptions = ["header value as delivered to the handler (net/http's own trimming of the wire value is upstream of the chain)",
                       "completeness for user names without ':' and tokens without ' ' (RFC 7617 / RFC 6750 forms)"]
    common.lean_obligations(chk, "BdModel/Props/C17.lean", TIE)
    binp, out = common.build_harness("auth")
    if not binp:
        chk.oblige("harness-build:auth", False, out[-3000:]); return
    chk.oblige("harness-build:auth", True)
    rng = chk.rng
    cases = []
    if replay and "server_case" in json.load(open(replay)).get("case", {}):
        server_stream(chk, binp, only=json.load(open(replay))["case"]["server_case"]); return
    if replay:
        cases = [json.load(open(replay))["case"]]
    else:
        nconf = 40 if chk.tier == "quick" else 400
        confs = []
        for hasB, hasT in [(False, False), (True, False), (False, True), (True, True)]:
            for _ in range(nconf // 4):
                user, pw, tok = rng.choice(SECRETS[:5] + [b"a"]), rng.choice(SECRETS), rng.choice(SECRETS)
                if rng.random() < 0.2: tok = pw          # token equal to the password
                if rng.random() < 0.15: tok = pw[:max(0, len(pw) - 1)]  # prefix-related secrets
                base = rng.choice([b"", b"", b"/bd", b"/x/y"])
                confs.append((hasB, user, pw, hasT, tok, base))
        k = 0
        for (hasB, user, pw, hasT, tok, base) in confs:
            for kind, hdr in headers_for(rng, user, pw, tok):
                for path in ([PATHS[0], rng.choice(PATHS)] if chk.tier == "quick" else PATHS):
                    for withbase in (True, False):
                        full = (base + path) if withbase else path
                        meth = rng.choice(METHODS)
                        extra = []
                        if rng.random() < 0.35:
                            import base64 as _b64
                            pool = [("Access-Control-Request-Method", rng.choice([b"POST", b"GET", b"DELETE"])), ("Origin", b"http://elsewhere.example"),
                                    ("Access-Control-Request-Headers", b"authorization"), ("X-Forwarded-For", b"127.0.0.1"),
                                    ("X-Real-Ip", b"127.0.0.1"), ("Cookie", b"auth=1; token=" + tok), ("X-Requested-With", b"XMLHttpRequest"),
                                    ("Connection", b"Upgrade"), ("Upgrade", b"websocket"), ("X-Http-Method-Override", b"OPTIONS"),
                                    ("Proxy-Authorization", b"Basic " + _b64.b64encode(user + b":" + pw)), ("X-Api-Key", tok),
                                    ("X-Auth-Token", tok), ("X-Authenticated", b"true"), ("Content-Type", b"application/json"),
                                    ("Www-Authenticate", b"Basic realm=restricted"), ("Forwarded", b"for=127.0.0.1;proto=https")]
                            extra = [[n, v.hex()] for n, v in rng.sample(pool, rng.randint(1, 3))]
                        cases.append({"id": "a%d" % k, "extra": extra, "hasBasic": hasB, "user": user.hex(), "pass": pw.hex(), "hasToken": hasT,
                                      "token": tok.hex(), "base": base.hex(), "method": meth, "path": full.hex(),
                                      "hasHdr": hdr is not None, "hdr": (hdr or b"").hex(), "kind": kind})
                        k += 1
    hin = "\n".join(json.dumps(c) for c in cases) + "\n"
    p = subprocess.run([binp], input=hin, stdout=subprocess.PIPE, stderr=subprocess.PIPE, text=True, timeout=3000)
    if p.returncode != 0:
        chk.oblige("harness-run:auth", False, p.stderr[-2000:]); return
    din = "\n".join("%s %d %s %s %d %s %s %s %s" % (c["id"], c["hasBasic"], c["user"] or "-", c["pass"] or "-", c["hasToken"],
                                                     c["token"] or "-", c["base"] or "-", c["path"] or "-", c["hdr"] or "-")
                    for c in cases) + "\n"
    rc, dout, derr = common.run_driver("auth", din, timeout=3000)
    if rc != 0:
        chk.oblige("driver-run:auth", False, derr[-2000:]); return
    hl = [l.split(" ")[1] for l in p.stdout.strip().split("\n")]
    dl = [l.split(" ")[1] for l in dout.strip().split("\n")]
    if len(hl) != len(cases) or len(dl) != len(cases):
        chk.oblige("correspondence:auth-output-count", False, "%d %d %d" % (len(hl), len(dl), len(cases))); return
    dis = 0
    dist = {}
    for c, impl, model in zip(cases, hl, dl):
        chk.evaluations += 1
        kind = c.get("kind", "?")
        dist[impl] = dist.get(impl, 0) + 1
        user, pw, tok = bytes.fromhex(c["user"]), bytes.fromhex(c["pass"]), bytes.fromhex(c["token"])
        hdr = bytes.fromhex(c["hdr"]) if c["hasHdr"] else None
        path, base = bytes.fromhex(c["path"]), bytes.fromhex(c["base"])
        if c["hasBasic"] or c["hasToken"]:
            chk.nontrivial.add((c["hasBasic"], c["hasToken"], c["user"], c["pass"], c["token"], c["hdr"], c["path"]))
        stripped = path[len(base):] if path.startswith(base) else None
        on_api = stripped is not None and stripped.startswith(b"/api") and not (base and path == b"/")
        authcfg = c["hasBasic"] or c["hasToken"]
        pres = presents_secret(c["hasBasic"], user, pw, c["hasToken"], tok, hdr)
        # ---- the property itself, on the implementation
        if impl == "api" and authcfg and not pres:
            chk.violation("C17:api-reached-without-secret:" + kind, "request reached the API handler presenting neither secret (header kind %s)" % kind, c)
        if impl == "api" and not on_api:
            chk.violation("C17:non-api-path-reached-api", "path %r reached the API handler" % path, c)
        if on_api:
            if not authcfg and impl != "api":
                chk.violation("C17:refused-without-auth-configured", "no auth configured but answered %s" % impl, c)
            if authcfg and kind == "basic_ok" and c["hasBasic"] and b":" not in user and impl != "api":
                chk.violation("C17:standard-basic-credentials-refused", "Basic base64(user:password) answered %s" % impl, c)
            if authcfg and kind == "bearer_ok" and c["hasToken"] and tok and b" " not in tok and impl != "api":
                chk.violation("C17:standard-bearer-token-refused", "Bearer token answered %s" % impl, c)
            if authcfg and not pres and impl != "unauthorized":
                chk.violation("C17:no-secret-not-401:" + kind, "request presenting neither secret answered %s instead of 401" % impl, c)
        if impl != model:
            dis += 1; chk.disagreements += 1
            if dis <= 3:
                chk.oblige("correspondence:auth:%s" % c["id"], False, "impl=%s model=%s case=%s" % (impl, model, json.dumps(c)))
    chk.disagreements_checked = chk.disagreements
    if dis == 0:
        chk.oblige("correspondence:auth (impl = model on every request)", True)
    chk.stats = {"decisions": dist, "cases": len(cases)}
    if not replay:
        server_stream(chk, binp)
    chk.rule = ("4 auth configurations x secrets pool (incl. empty, prefix-related, token = password, ':' and ' ' inside, UTF-8) x "
                "header grammar of %d kinds (scheme case, spacing, base64 validity, each part right/wrong/empty/truncated/wrong case, "
                "secret under the other scheme, garbage) x methods x path shapes with/without base path; non-trivial = some auth configured; "
                "distinct = distinct (configuration, header, path)" % len(headers_for(rng, b"u", b"p", b"t")))
    chk.samples = [dict(cases[i], impl=hl[i]) for i in (0, len(cases) // 3, len(cases) - 1)]
