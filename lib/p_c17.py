"""C17 — no API request gets through without valid credentials when auth is on."""
import base64, json, subprocess
import common

TIE = {"Auth": ["h_mw_SetupGlobalMiddleware", "h_mw_prefixChecker", "h_mw_isAuthenticated", "h_mw_withAuthenticated",
                "h_mw_cors", "h_mw_BasicAuth", "h_mw_skipBasicAuth", "h_mw_TokenAuth", "h_mw_skipTokenAuth",
                "wrapOrder", "skipBasicCond"]}

SECRETS = [b"admin", b"secret", b"p:q", b"pass word", b"P@ss", b"pass", b"passw", b"", b"tok", b"token123", b"tok en",
           b"\xc3\xa9t\xc3\xa9", b"a", b"Bearer", b"Basic"]


def hx(b):
    return b.hex() if b else "-"


def b64(b):
    return base64.b64encode(b)


def headers_for(rng, user, pw, tok):
    """(kind, header bytes or None); kind encodes how the header relates to the secrets"""
    H = []
    good_basic = b"Basic " + b64(user + b":" + pw)
    H.append(("none", None)); H.append(("empty", b""))
    H.append(("basic_ok", good_basic))
    H.append(("basic_lower_scheme", b"basic " + b64(user + b":" + pw)))
    H.append(("basic_upper_scheme", b"BASIC " + b64(user + b":" + pw)))
    H.append(("basic_wrongpass", b"Basic " + b64(user + b":" + pw + b"x")))
    H.append(("basic_casepass", b"Basic " + b64(user + b":" + pw.swapcase())) if pw.swapcase() != pw else ("none", None))
    H.append(("basic_prefixpass", b"Basic " + b64(user + b":" + pw[:-1])) if pw else ("none", None))
    H.append(("basic_wronguser", b"Basic " + b64(user + b"x:" + pw)))
    H.append(("basic_emptyuser", b"Basic " + b64(b":" + pw)))
    H.append(("basic_nocolon", b"Basic " + b64(user + pw)))
    H.append(("basic_badb64", b"Basic !!!" + b64(user + b":" + pw)))
    H.append(("basic_truncated", good_basic[:-2]))
    H.append(("basic_nopad", good_basic.rstrip(b"=")) if good_basic.endswith(b"=") else ("none", None))
    H.append(("basic_twospaces", b"Basic  " + b64(user + b":" + pw)))
    H.append(("basic_nospace", b"Basic" + b64(user + b":" + pw)))
    H.append(("basic_trailing", good_basic + b" x"))
    H.append(("bearer_ok", b"Bearer " + tok))
    H.append(("bearer_wrong", b"Bearer " + tok + b"x"))
    H.append(("bearer_prefix", b"Bearer " + tok[:-1]) if tok else ("none", None))
    H.append(("bearer_case", b"Bearer " + tok.swapcase()) if tok.swapcase() != tok else ("none", None))
    H.append(("bearer_emptyfield", b"Bearer "))
    H.append(("bearer_only", b"Bearer"))
    H.append(("bearer_twospaces", b"Bearer  " + tok))
    H.append(("bearer_lower_scheme", b"bearer " + tok))
    H.append(("bearer_trailing", b"Bearer " + tok + b" extra"))
    H.append(("token_under_basic", b"Basic " + tok))
    H.append(("token_other_scheme", b"Foo " + tok))
    H.append(("pass_under_bearer", b"Bearer " + pw))
    H.append(("b64creds_under_bearer", b"Bearer " + b64(user + b":" + pw)))
    H.append(("garbage", bytes(rng.randrange(33, 127) for _ in range(rng.randint(1, 30)))))
    H.append(("garbage_sp", b" ".join(bytes(rng.randrange(33, 127) for _ in range(rng.randint(0, 6))) for _ in range(rng.randint(1, 4)))))
    return [h for h in H if not (h[0] == "none" and h[1] is None and H.index(h) > 0)]


PATHS = [b"/api/v1/dags", b"/api", b"/api/v1/dags/x?y=1", b"/apix", b"/", b"/dags", b"/assets/a.js", b"/ap", b"/API/v1/dags",
         # non-canonical spellings (the chain sees r.URL.Path as sent: not cleaned); percent-escapes are left to the
         # real-server path stream, the model's path is the decoded URL path
         b"/api/v1/docs/../dags", b"/api/v1/swagger.json/../dags", b"/assets/../api/v1/dags", b"/api/v1/./dags",
         b"//api/v1/dags", b"/api/v1//dags", b"/api/v1/dags/", b"/api/v1/docs", b"/api/../x", b"/x/../api/v1/dags",
         b"/api/v1/dags;x=1", b"/api/v1/docs/x/../../dags/a"]
METHODS = ["GET", "POST", "PUT", "DELETE", "PATCH", "HEAD", "OPTIONS"]
NEITHER = {"none", "empty", "basic_wrongpass", "basic_casepass", "basic_prefixpass", "basic_wronguser", "basic_emptyuser",
           "basic_nocolon", "basic_badb64", "basic_truncated", "bearer_wrong", "bearer_prefix", "bearer_case",
           "bearer_emptyfield", "bearer_only", "garbage"}


def presents_secret(hasB, user, pw, hasT, tok, hdr):
    """independent reading of 'presents the configured password for the configured user or the configured token'"""
    if hdr is None:
        return False
    if hasB and len(hdr) >= 6 and hdr[:6].lower() == b"basic ":
        try:
            raw = base64.b64decode(hdr[6:], validate=True)
            if b":" in raw:
                u, p = raw.split(b":", 1)
                if u == user and p == pw:
                    return True
        except Exception:
            pass
    if hasT and tok != b"":
        f = hdr.split(b" ")
        if len(f) >= 2 and f[1] == tok:
            return True
    return False


def server_stream(chk, binp, only=None):
    """the REAL web server as `blackdagger server` builds it (config.Config -> frontend.New -> Server.Serve) on a loopback
    port: the configured secrets reach the middleware through that wiring. For every configuration (none / basic / token /
    both, empty secrets included) requests with no, wrong and right credentials on API paths: a request presenting neither
    secret must be answered 401, standard right credentials must not be"""
    rng = chk.rng
    cases = []
    if only is not None:
        cases = [only]
    else:
        k = 0
        for hasB, hasT in [(False, False), (True, False), (False, True), (True, True)]:
            for rep in range(2 if chk.tier == "quick" else 8):
                user, pw, tok = rng.choice(SECRETS[:5] + [b"a"]), rng.choice(SECRETS), rng.choice(SECRETS)
                if rep == 0 and hasT: tok = b""             # token auth switched on with an empty secret
                if rep == 1 and hasB: pw = b""
                base = rng.choice([b"", b"", b"/bd"])
                reqs = []
                for kind, hdr in headers_for(rng, user, pw, tok):
                    # the real server serves the API under /api/... whatever base path is configured (under <base>/api/...
                    # it answers with the UI's index page): API paths are given without the base
                    for path in (b"/api/v1/dags", rng.choice([b"/api/v1/dags/x", b"/api/v1/dags?x=1", b"/"])):
                        reqs.append({"id": "q%d" % len(reqs), "method": rng.choice(["GET", "GET", "POST", "DELETE"]), "path": path.hex(),
                                     "hasHdr": hdr is not None, "hdr": (hdr or b"").hex(), "kind": kind, "extra": []})
                cases.append({"id": "srv%d" % k, "hasBasic": hasB, "user": user.hex(), "pass": pw.hex(), "hasToken": hasT, "token": tok.hex(),
                              "base": base.hex(), "reqs": reqs}); k += 1
    p = subprocess.run([binp, "server"], input="\n".join(json.dumps(c) for c in cases) + "\n", stdout=subprocess.PIPE,
                       stderr=subprocess.PIPE, text=True, timeout=900)
    res = {}
    for l in p.stdout.strip().split("\n"):
        if l.strip():
            r = json.loads(l); res[r["id"]] = r["codes"]
    n = 0
    for c in cases:
        codes = res.get(c["id"])
        if not codes or len(codes) != len(c["reqs"]):
            chk.oblige("harness-run:auth-server:" + c["id"], False, "codes=%r stderr=%s" % (codes, p.stderr[-300:])); continue
        user, pw, tok = bytes.fromhex(c["user"]), bytes.fromhex(c["pass"]), bytes.fromhex(c["token"])
        authcfg = c["hasBasic"] or c["hasToken"]
        for q, code in zip(c["reqs"], codes):
            n += 1; chk.evaluations += 1
            path = bytes.fromhex(q["path"])
            if not path.startswith(b"/api"):
                continue
            hdr = bytes.fromhex(q["hdr"]) if q["hasHdr"] else None
            pres = presents_secret(c["hasBasic"], user, pw, c["hasToken"], tok, hdr)
            one = dict({kk: vv for kk, vv in c.items() if kk != "reqs"}, reqs=[q])
            if authcfg and not pres and code != 401:
                chk.violation("C17:server:no-secret-not-401:" + q["kind"], "the real server (basic %s, token %s%s) answered %d instead of 401 to a request presenting neither secret (header kind %s)" % (
                    c["hasBasic"], c["hasToken"], ", EMPTY token" if c["hasToken"] and not tok else "", code, q["kind"]), {"server_case": one})
            if authcfg and code == 401 and ((q["kind"] == "basic_ok" and c["hasBasic"] and b":" not in user) or
                                            (q["kind"] == "bearer_ok" and c["hasToken"] and tok and b" " not in tok)):
                chk.violation("C17:server:standard-credentials-refused:" + q["kind"], "the real server answered 401 to standard right credentials", {"server_case": one})
            if not authcfg and code == 401:
                chk.violation("C17:server:refused-without-auth-configured", "no auth configured but the real server answered 401", {"server_case": one})
    chk.stats = dict(getattr(chk, "stats", None) or {}, server_requests=n)


# ---------------------------------------------------------------- the PATH as a generated dimension (real server, raw client)
API = "/api/v1"
# every route of api.v1.yaml: (op, method, route under the API base, query, body). "{C}" = the planted DAG's name,
# "{N}" = a name that does not exist yet, "{W}" = a word of the planted DAG's description
OPS = [("list", "GET", "dags", "", None),
       ("create", "POST", "dags", "", {"action": "new", "value": "{N}"}),
       ("details", "GET", "dags/{C}", "", None),
       ("action", "POST", "dags/{C}", "", None),          # body chosen per request: suspend / save / rename
       ("delete", "DELETE", "dags/{C}", "", None),
       ("search", "GET", "search", "q=command", None),   # a word of every DAG file; the answer names the DAG
       ("tags", "GET", "tags", "", None),
       # not API operations (documentation): sent to find out what the code does with them, no verdict on their status
       ("docs", "GET", "docs", "", None),
       ("spec", "GET", "swagger.json", "", None)]
DOC_OPS = {"docs", "spec"}


def spellings(route, base):
    """(kind, raw request target without query) for one route: every one of them is, after RFC 3986 normalisation
    (dot segments removed, percent-escapes of unreserved characters decoded, empty segments dropped) or after a
    case fold, the same API path — or simply contains it; sent AS-IS on the wire"""
    A, R = API, route
    first, _, rest = R.partition("/")
    S = [("canonical", A + "/" + R),
         ("docs_dotdot", A + "/docs/../" + R),
         ("docs_deep_dotdot", A + "/docs/x/../../" + R),
         ("docs_oauth_dotdot", A + "/docs/oauth2-callback/../../" + R),
         ("docsx_dotdot", A + "/docsx/../" + R),
         ("spec_dotdot", A + "/swagger.json/../" + R),
         ("assets_dotdot", "/assets/../api/v1/" + R),
         ("x_dotdot", A + "/x/../" + R),
         ("root_dotdot", "/x/../api/v1/" + R),
         ("api_dotdot", "/api/../api/v1/" + R),
         ("v1_dotdot", "/api/v1/../v1/" + R),
         ("dot", A + "/./" + R),
         ("dslash_lead", "/" + A + "/" + R),
         ("dslash_mid", A + "//" + R),
         ("dslash_api", "/api//v1/" + R),
         ("trailing_slash", A + "/" + R + "/"),
         ("trailing_dot", A + "/" + R + "/."),
         ("upper_api", "/API/v1/" + R),
         ("upper_route", A + "/" + first.upper() + ("/" + rest if rest else "")),
         ("pct_dotdot", A + "/docs/%2e%2e/" + R),
         ("pct_dotdot_uc", A + "/docs/%2E%2E/" + R),
         ("pct_dot_half", A + "/docs/.%2e/" + R),
         ("pct_slash", A + "/docs%2F..%2F" + R),
         ("pct_slash_base", "/api%2Fv1/" + R),
         ("pct_letter", A + "/%" + "%02x" % ord(R[0]) + R[1:]),
         ("pct_api", "/%61pi/v1/" + R),
         ("semicolon", A + "/" + R + ";x=1"),
         ("semicolon_docs", A + "/docs;x/../" + R),
         ("query", A + "/" + R + "?x=1"),
         ("query_docs", A + "/" + R + "?next=/api/v1/docs"),
         ("fragment", A + "/" + R + "#/api/v1/docs"),
         ("backslash", A + "/docs\\..\\" + R),
         ("absolute_form", "http://{HOSTPORT}" + A + "/" + R),
         ("absolute_dotdot", "http://{HOSTPORT}" + A + "/docs/../" + R)]
    if base:
        S += [("base_prefixed", base + A + "/" + R), ("base_dotdot", base + "/../api/v1/" + R)]
    return S


def with_query(target, q):
    if not q:
        return target
    if "#" in target:
        t, f = target.split("#", 1)
        return with_query(t, q) + "#" + f
    return target + ("&" if "?" in target else "?") + q


def layer_of(r, reached):
    """which layer answered (for the answer table): auth chain / an API handler / the go-openapi layer behind the chain
    (router errors, Swagger UI, spec) / the web UI's default handler / net/http itself"""
    body = bytes.fromhex(r.get("body", ""))
    ct = r.get("ctype", "")
    if r["code"] == 401: return "auth"
    if reached: return "HANDLER"
    if r["code"] == 303: return "redirect"
    if ct.startswith("application/json"):
        if body.startswith(b'{"code":'): return "apirouter"
        if body.startswith(b'{"swagger"') or b'"swagger"' in body[:40]: return "apispec"
        return "apijson"
    if ct.startswith("text/html"):
        return "apidocs" if (b"swagger-ui" in body.lower() or b"SwaggerUI" in body) else "ui"
    if ct.startswith("text/plain"): return "nethttp"
    return "other" if r["code"] > 0 else "neterr"


def reach_evidence(op, r, sent=b""):
    """OPERATIONAL definition of 'the request reached an API handler' (the go-openapi router dispatched it to one of the
    operation handlers of internal/frontend/dag), from the outside:
      * mark   — the response body contains a string that only the planted DAG holds (its name, its tag, a word of its
                 description) and that the request itself did NOT contain (error messages echo the request path):
                 only listDags / getDagDetails / searchDags / listTags read the DAG store;
      * effect — the DAGs directory or the suspend-flag directory changed during the request (createDag / postDagAction
                 / deleteDag are the only code that writes there);
      * shape  — a JSON answer in the shape only the operation handlers produce: a success model (DAGs / DAG / Tags /
                 Results / DagID / Errors keys) or the handlers' error model {"message", "detailedMessage"} (the
                 go-openapi layer's own errors are {"code", "message"}: router-level 404 'path … was not found', 405,
                 422 — produced before any handler runs; the UI's index page and net/http's plain-text 400/404 are not
                 JSON at all)."""
    ev = []
    disclosed = [m for m in (r.get("marks") or []) if m.encode() not in sent]
    if disclosed: ev.append("mark[%s]" % ",".join(disclosed))
    if r.get("effect"): ev.append("effect[%s]" % r["effect"])
    body = bytes.fromhex(r.get("body", ""))
    if r.get("ctype", "").startswith("application/json") and r["code"] != 401 and not body.startswith(b'{"code":'):
        for key in (b'"DAGs"', b'"DAG"', b'"Tags"', b'"Results"', b'"DagID"', b'"Errors"', b'"detailedMessage"', b'"Definition"'):
            if key in body:
                ev.append("shape[%s]" % key.decode().strip('"')); break
    return ev


def path_stream(chk, binp, only=None):
    """the PATH dimension: for every route of the API spec, every spelling of its path (`spellings`), sent raw, with
    no / wrong / right credentials, under the same 8 server configurations as `server_stream`. Verdict (no Lean model
    involved): without a valid secret no API handler is reached, whatever the spelling; a literal /api… target without a
    valid secret is answered 401; the standard right credentials on the canonical path reach the handler."""
    import time
    t0 = time.time()
    rng = chk.rng
    if only is not None:
        cases = [only]
    else:
        cases = []
        k = 0
        for hasB, hasT in [(False, False), (True, False), (False, True), (True, True)]:
            for rep in range(2 if chk.tier == "quick" else 6):
                user, pw, tok = rng.choice(SECRETS[:5] + [b"a"]), rng.choice(SECRETS), rng.choice(SECRETS)
                if rep == 0 and hasT: tok = b""             # token auth switched on with an empty secret
                if rep == 1 and hasB: pw = b""
                if rep >= 1 and hasT and not tok: tok = b"tok"
                base = ("/bd" if hasB != hasT else "") if rep == 1 else rng.choice(["", "/bd"])
                tagw = "".join(rng.choice("abcdefghijklmnopqrstuvwxyz") for _ in range(6))
                canary, tag, word = "cnry" + tagw, "tg" + tagw[::-1], "wd" + tagw[2:] + tagw[:2]
                creds = [("none", None)]
                wrongs, rights = [], []
                if hasB:
                    wrongs.append(("basic_wrongpass", b"Basic " + b64(user + b":" + pw + b"x")))
                    rights.append(("basic_ok", b"Basic " + b64(user + b":" + pw)))
                if hasT:
                    wrongs.append(("bearer_wrong", b"Bearer " + tok + b"x"))
                    rights.append(("bearer_ok", b"Bearer " + tok))
                if not wrongs:
                    wrongs.append(("basic_wrongpass", b"Basic " + b64(b"u:p")))
                    rights.append(("basic_ok", b"Basic " + b64(user + b":" + pw)))
                reqs = []
                for op, meth, route, q, body in OPS:
                    route_c = route.replace("{C}", canary)
                    for kind, target in spellings(route_c, base):
                        for ck, chdr in [creds[0], rng.choice(wrongs), rng.choice(rights)] + (
                                [rights[-1]] if kind == "canonical" and len(rights) > 1 else []):
                            b = body
                            if op == "action":
                                b = rng.choice([{"action": "suspend", "value": "true"},
                                                {"action": "rename", "value": "rn" + tagw},
                                                {"action": "save", "value": "steps:\n  - name: z\n    command: \"true\"\n"}])
                            bj = json.dumps(b).replace("{N}", "nw" + tagw) if b is not None else ""
                            reqs.append({"id": "p%d" % len(reqs), "op": op, "pkind": kind, "method": meth,
                                         "target": with_query(target, q.replace("{W}", word)).encode().hex(),
                                         "target_text": with_query(target, q.replace("{W}", word)),   # for the reader of a replay
                                         "hasHdr": chdr is not None, "hdr": (chdr or b"").hex(), "kind": ck, "body": bj.encode().hex()})
                cases.append({"id": "pth%d" % k, "hasBasic": hasB, "user": user.hex(), "pass": pw.hex(), "hasToken": hasT, "token": tok.hex(),
                              "base": base.encode().hex(), "canary": canary, "marks": [canary, tag, word], "preqs": reqs, "reqs": []}); k += 1
    p = subprocess.run([binp, "paths"], input="\n".join(json.dumps(c) for c in cases) + "\n", stdout=subprocess.PIPE,
                       stderr=subprocess.PIPE, text=True, timeout=900)
    res = {}
    for l in p.stdout.strip().split("\n"):
        if l.strip():
            r = json.loads(l); res[r["id"]] = r
    table, n, live, nosecret = {}, 0, {}, 0
    for c in cases:
        rr = res.get(c["id"])
        if not rr or rr.get("err") or len(rr.get("res") or []) != len(c["preqs"]):
            chk.oblige("harness-run:auth-paths:" + c["id"], False, "res=%r stderr=%s" % ((rr or {}).get("err"), p.stderr[-300:])); continue
        user, pw, tok = bytes.fromhex(c["user"]), bytes.fromhex(c["pass"]), bytes.fromhex(c["token"])
        authcfg = c["hasBasic"] or c["hasToken"]
        for q, r in zip(c["preqs"], rr["res"]):
            n += 1; chk.evaluations += 1
            target = bytes.fromhex(q["target"]).decode()
            hdr = bytes.fromhex(q["hdr"]) if q["hasHdr"] else None
            pres = presents_secret(c["hasBasic"], user, pw, c["hasToken"], tok, hdr)
            ev = reach_evidence(q["op"], r, bytes.fromhex(q["target"]) + bytes.fromhex(q["body"])) if q["op"] not in DOC_OPS else []
            one = dict({kk: vv for kk, vv in c.items() if kk != "preqs"}, preqs=[q])
            cls = "noauth" if not authcfg else ("secret" if pres else ("none" if hdr is None else "wrong"))
            table.setdefault((q["pkind"], cls, "doc" if q["op"] in DOC_OPS else "op"), {})
            cell = table[(q["pkind"], cls, "doc" if q["op"] in DOC_OPS else "op")]
            key = "%d/%s" % (r["code"], layer_of(r, bool(ev))); cell[key] = cell.get(key, 0) + 1
            if authcfg:
                chk.nontrivial.add((c["id"], q["op"], q["pkind"], q["kind"]))
            if r["code"] < 0:
                chk.oblige("harness-run:auth-paths:%s:%s" % (c["id"], q["id"]), False, "request failed: %r %r" % (target, r.get("err"))); continue
            what = "%s %s (%s of %s, header kind %s; basic %s, token %s%s) -> %d %s" % (
                q["method"], target, q["pkind"], q["op"], q["kind"], c["hasBasic"], c["hasToken"],
                ", EMPTY token" if c["hasToken"] and not tok else "", r["code"], bytes.fromhex(r.get("body", ""))[:80])
            if authcfg and not pres:
                nosecret += 1
                if ev:
                    chk.violation("C17:server:api-handler-reached-without-secret:" + q["pkind"],
                                  "the real server let a request presenting neither secret reach an API handler (evidence: %s): %s" % (", ".join(ev), what),
                                  {"path_case": one})
                elif q["op"] not in DOC_OPS and target.startswith("/api") and r["code"] != 401:
                    chk.violation("C17:server:no-secret-not-401:path:" + q["pkind"],
                                  "the real server answered a request to a literal /api… target presenting neither secret with something else than 401: " + what,
                                  {"path_case": one})
            if q["pkind"] == "canonical" and q["op"] not in DOC_OPS:
                std = (not authcfg) or (q["kind"] == "basic_ok" and c["hasBasic"] and b":" not in user) or \
                      (q["kind"] == "bearer_ok" and c["hasToken"] and tok and b" " not in tok)
                if std and (q["kind"] != "none" or not authcfg):
                    if r["code"] == 401:
                        chk.violation("C17:server:standard-credentials-refused:path:" + q["op"],
                                      "the real server answered 401 to standard right credentials on the canonical path: " + what, {"path_case": one})
                    live.setdefault(q["op"], []).append((bool(ev), what))
            if not authcfg and r["code"] == 401:
                chk.violation("C17:server:refused-without-auth-configured:path", "no auth configured but 401: " + what, {"path_case": one})
    if only is None:
        # the detector is alive: with acceptable credentials on the canonical path EVERY operation shows the evidence
        dead = [(op, [w for e, w in v if not e][:1]) for op, v in live.items() if not all(e for e, _ in v)]
        missing = [o[0] for o in OPS if o[0] not in DOC_OPS and o[0] not in live]
        chk.oblige("server-paths:handler-reach-detector-alive (canonical path + right credentials shows the evidence, every operation)",
                   not dead and not missing, "no evidence: %r never accepted: %r" % (dead, missing))
    chk.stats = dict(getattr(chk, "stats", None) or {}, path_requests=n, path_requests_without_secret=nosecret,
                     path_wall_s=round(time.time() - t0, 1),
                     path_table={"%s|%s|%s" % k: v for k, v in sorted(table.items())})


def run(chk, replay):
    chk.trusted = common.TRUSTED_COMMON + ["net/http header parsing and base64 re-implemented in Lean (validated differentially; decode∘encode = id proved)"]
    chk.assumptions = ["header value as delivered to the handler (net/http's own trimming of the wire value is upstream of the chain)",
                       "completeness for user names without ':' and tokens without ' ' (RFC 7617 / RFC 6750 forms)"]
    common.lean_obligations(chk, "BdModel/Props/C17.lean", TIE)
    binp, out = common.build_harness("auth")
    if not binp:
        chk.oblige("harness-build:auth", False, out[-3000:]); return
    chk.oblige("harness-build:auth", True)
    rng = chk.rng
    cases = []
    if replay and "path_case" in json.load(open(replay)).get("case", {}):
        path_stream(chk, binp, only=json.load(open(replay))["case"]["path_case"]); return
    if replay and "server_case" in json.load(open(replay)).get("case", {}):
        server_stream(chk, binp, only=json.load(open(replay))["case"]["server_case"]); return
    if replay:
        cases = [json.load(open(replay))["case"]]
    else:
        nconf = 40 if chk.tier == "quick" else 400
        confs = []
        for hasB, hasT in [(False, False), (True, False), (False, True), (True, True)]:
            for _ in range(nconf // 4):
                user, pw, tok = rng.choice(SECRETS[:5] + [b"a"]), rng.choice(SECRETS), rng.choice(SECRETS)
                if rng.random() < 0.2: tok = pw          # token equal to the password
                if rng.random() < 0.15: tok = pw[:max(0, len(pw) - 1)]  # prefix-related secrets
                base = rng.choice([b"", b"", b"/bd", b"/x/y"])
                confs.append((hasB, user, pw, hasT, tok, base))
        k = 0
        for (hasB, user, pw, hasT, tok, base) in confs:
            for kind, hdr in headers_for(rng, user, pw, tok):
                for path in ([PATHS[0], rng.choice(PATHS)] if chk.tier == "quick" else PATHS):
                    for withbase in (True, False):
                        full = (base + path) if withbase else path
                        meth = rng.choice(METHODS)
                        extra = []
                        if rng.random() < 0.35:
                            import base64 as _b64
                            pool = [("Access-Control-Request-Method", rng.choice([b"POST", b"GET", b"DELETE"])), ("Origin", b"http://elsewhere.example"),
                                    ("Access-Control-Request-Headers", b"authorization"), ("X-Forwarded-For", b"127.0.0.1"),
                                    ("X-Real-Ip", b"127.0.0.1"), ("Cookie", b"auth=1; token=" + tok), ("X-Requested-With", b"XMLHttpRequest"),
                                    ("Connection", b"Upgrade"), ("Upgrade", b"websocket"), ("X-Http-Method-Override", b"OPTIONS"),
                                    ("Proxy-Authorization", b"Basic " + _b64.b64encode(user + b":" + pw)), ("X-Api-Key", tok),
                                    ("X-Auth-Token", tok), ("X-Authenticated", b"true"), ("Content-Type", b"application/json"),
                                    ("Www-Authenticate", b"Basic realm=restricted"), ("Forwarded", b"for=127.0.0.1;proto=https")]
                            extra = [[n, v.hex()] for n, v in rng.sample(pool, rng.randint(1, 3))]
                        cases.append({"id": "a%d" % k, "extra": extra, "hasBasic": hasB, "user": user.hex(), "pass": pw.hex(), "hasToken": hasT,
                                      "token": tok.hex(), "base": base.hex(), "method": meth, "path": full.hex(),
                                      "hasHdr": hdr is not None, "hdr": (hdr or b"").hex(), "kind": kind})
                        k += 1
    hin = "\n".join(json.dumps(c) for c in cases) + "\n"
    p = subprocess.run([binp], input=hin, stdout=subprocess.PIPE, stderr=subprocess.PIPE, text=True, timeout=3000)
    if p.returncode != 0:
        chk.oblige("harness-run:auth", False, p.stderr[-2000:]); return
    din = "\n".join("%s %d %s %s %d %s %s %s %s" % (c["id"], c["hasBasic"], c["user"] or "-", c["pass"] or "-", c["hasToken"],
                                                     c["token"] or "-", c["base"] or "-", c["path"] or "-", c["hdr"] or "-")
                    for c in cases) + "\n"
    rc, dout, derr = common.run_driver("auth", din, timeout=3000)
    if rc != 0:
        chk.oblige("driver-run:auth", False, derr[-2000:]); return
    hl = [l.split(" ")[1] for l in p.stdout.strip().split("\n")]
    dl = [l.split(" ")[1] for l in dout.strip().split("\n")]
    if len(hl) != len(cases) or len(dl) != len(cases):
        chk.oblige("correspondence:auth-output-count", False, "%d %d %d" % (len(hl), len(dl), len(cases))); return
    dis = 0
    dist = {}
    for c, impl, model in zip(cases, hl, dl):
        chk.evaluations += 1
        kind = c.get("kind", "?")
        dist[impl] = dist.get(impl, 0) + 1
        user, pw, tok = bytes.fromhex(c["user"]), bytes.fromhex(c["pass"]), bytes.fromhex(c["token"])
        hdr = bytes.fromhex(c["hdr"]) if c["hasHdr"] else None
        path, base = bytes.fromhex(c["path"]), bytes.fromhex(c["base"])
        if c["hasBasic"] or c["hasToken"]:
            chk.nontrivial.add((c["hasBasic"], c["hasToken"], c["user"], c["pass"], c["token"], c["hdr"], c["path"]))
        stripped = path[len(base):] if path.startswith(base) else None
        on_api = stripped is not None and stripped.startswith(b"/api") and not (base and path == b"/")
        authcfg = c["hasBasic"] or c["hasToken"]
        pres = presents_secret(c["hasBasic"], user, pw, c["hasToken"], tok, hdr)
        # ---- the property itself, on the implementation
        if impl == "api" and authcfg and not pres:
            chk.violation("C17:api-reached-without-secret:" + kind, "request reached the API handler presenting neither secret (header kind %s)" % kind, c)
        if impl == "api" and not on_api:
            chk.violation("C17:non-api-path-reached-api", "path %r reached the API handler" % path, c)
        if on_api:
            if not authcfg and impl != "api":
                chk.violation("C17:refused-without-auth-configured", "no auth configured but answered %s" % impl, c)
            if authcfg and kind == "basic_ok" and c["hasBasic"] and b":" not in user and impl != "api":
                chk.violation("C17:standard-basic-credentials-refused", "Basic base64(user:password) answered %s" % impl, c)
            if authcfg and kind == "bearer_ok" and c["hasToken"] and tok and b" " not in tok and impl != "api":
                chk.violation("C17:standard-bearer-token-refused", "Bearer token answered %s" % impl, c)
            if authcfg and not pres and impl != "unauthorized":
                chk.violation("C17:no-secret-not-401:" + kind, "request presenting neither secret answered %s instead of 401" % impl, c)
        if impl != model:
            dis += 1; chk.disagreements += 1
            if dis <= 3:
                chk.oblige("correspondence:auth:%s" % c["id"], False, "impl=%s model=%s case=%s" % (impl, model, json.dumps(c)))
    chk.disagreements_checked = chk.disagreements
    if dis == 0:
        chk.oblige("correspondence:auth (impl = model on every request)", True)
    chk.stats = {"decisions": dist, "cases": len(cases)}
    if not replay:
        server_stream(chk, binp)
        path_stream(chk, binp)
    chk.rule = ("4 auth configurations x secrets pool (incl. empty, prefix-related, token = password, ':' and ' ' inside, UTF-8) x "
                "header grammar of %d kinds (scheme case, spacing, base64 validity, each part right/wrong/empty/truncated/wrong case, "
                "secret under the other scheme, garbage) x methods x path shapes (canonical and non-canonical spellings) with/without base path; "
                "real server, raw client: 8 configurations x every route of the API spec (%d operations + docs/spec) x %d raw spellings of its "
                "path (dot segments under /docs, /swagger.json, /assets, other prefixes; doubled slashes; trailing slash/dot; case; "
                "percent-escaped '.', '/', letters; ';params'; '?query'; '#'; backslash; absolute form; base path) x no/wrong/right credentials; "
                "non-trivial = some auth configured; distinct = distinct (configuration, header, path)" % (
                    len(headers_for(rng, b"u", b"p", b"t")), len(OPS) - len(DOC_OPS), len(spellings("dags", "/bd"))))
    chk.samples = [dict(cases[i], impl=hl[i]) for i in (0, len(cases) // 3, len(cases) - 1)]
