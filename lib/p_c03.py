"""C03 — scheduler family; shared stream in sched.py"""
import common, sched

PROP = "C03"


def run(chk, replay):
    sched.run_property(chk, PROP, replay)
