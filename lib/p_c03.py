"""C03 — scheduler family (shared stream in sched.py) + a real-process stream for the command line of retried steps"""
import json, os, subprocess
import common, sched, x_execs

PROP = "C03"


def argv_stream(chk):
    """real `sh` through the real scheduler (log-area harness): a step given in string form or array form, with or without
    `script:`, fails its first k attempts and is retried; every attempt must run the same command (so the retry can succeed),
    exactly fails+1 attempts are made and the recorded retry count says so"""
    binp, out = common.build_harness("log")
    if not binp:
        chk.oblige("harness-build:log", False, out[-3000:]); return
    cases, k = [], 0
    for arr in (False, True):
        for sc in (False, True):
            for limit, fails in ((1, 1), (2, 1), (2, 2), (1, 0), (0, 0), (1, 2)):
                atts = [[{"e": False, "n": 10 + a}] for a in range(min(fails, limit) + 1)]
                cases.append({"id": "v%d" % k, "so": False, "se": False, "ou": False, "sc": sc, "arr": arr, "limit": limit, "fails": fails,
                              "attempts": atts, "done": chk.rng.random() < 0.5, "timeout": 30})
                k += 1
    p = subprocess.run([binp], input="\n".join(json.dumps(c) for c in cases) + "\n", stdout=subprocess.PIPE, stderr=subprocess.PIPE, text=True, timeout=600)
    res = {}
    for l in p.stdout.strip().split("\n"):
        if l.strip():
            try:
                r = json.loads(l); res[r["id"]] = r
            except Exception:
                pass
    st = {"cases": 0, "array_form": 0, "with_script": 0, "retried": 0}
    for c in cases:
        r = res.get(c["id"])
        if r is None:
            chk.oblige("harness-run:argv:" + c["id"], False, p.stderr[-400:]); continue
        chk.evaluations += 1; st["cases"] += 1; st["array_form"] += c["arr"]; st["with_script"] += c["sc"]; st["retried"] += c["fails"] > 0
        chk.nontrivial.add("argv%s" % json.dumps([c["arr"], c["sc"], c["limit"], c["fails"]]))
        want_runs = min(c["fails"], c["limit"]) + 1
        want_status = "failed" if c["fails"] > c["limit"] else "finished"
        form = ("array-form" if c["arr"] else "string-form") + ("-command-with-script" if c["sc"] else "-command")
        if r.get("status") != want_status:
            chk.violation("C03:retried-step-cannot-succeed:" + form if want_status == "finished" else "C03:wrong-final-state-of-retried-step:" + form,
                          "%s, retry limit %d, fails its first %d attempts: final state %r after %s attempts, expected %r after %d" % (
                              form, c["limit"], c["fails"], r.get("status"), r.get("attempts_run"), want_status, want_runs), {"argv_case": c})
        elif r.get("attempts_run") != want_runs:
            chk.violation("C03:wrong-number-of-attempts:" + form, "%d attempts run, expected %d" % (r.get("attempts_run"), want_runs), {"argv_case": c})
    chk.stats["argv_stream"] = st


def retry_budget_stream(chk):
    """retry RUNS (NewExecutionGraphForRetry + Schedule on recorded vectors, as in C10): a re-executed step gets its full
    retry budget and its recorded retry count equals the extra attempts made in that run"""
    import p_c10
    binp, out = common.build_harness("sched")
    if not binp:
        return
    rng = chk.rng
    first = []
    for k in range(60 if chk.tier == "quick" else 600):
        c = sched.gen_case(rng, 700000 + k, 6); c["dry"] = False
        for nd in c["nodes"]:
            if nd["limit"] == 0 and rng.random() < 0.5:
                nd["limit"] = rng.randint(1, 2); nd["fails"] = rng.choice([-1, nd["limit"] + 1, 1])
        first.append(c)
    res1 = sched.run_harness(binp, first)
    cases = []
    for k, c in enumerate(first):
        r = res1.get(c["id"])
        if r and not r.get("crash"):
            rc = p_c10.retry_case(rng, c, r, 700000 + k)
            if rc:
                rc["stopAfter"] = -1
                for nd, orig in zip(rc["nodes"], c["nodes"]):
                    if orig["limit"] > 0:
                        nd["fails"] = rng.choice([1, orig["limit"], orig["limit"] + 1, -1])
                cases.append(rc)
    cdir = os.path.join(common.ROOT, "corpus", "retry")
    if os.path.isdir(cdir):
        for f in sorted(os.listdir(cdir)):
            cc = json.load(open(os.path.join(cdir, f))); cc["id"] = "corpus-" + f[:-5]; cases.insert(0, cc)
    res = sched.run_harness(binp, cases)
    n = 0
    for c in cases:
        r = res.get(c["id"])
        if not r or r.get("crash"):
            continue
        n += 1; chk.evaluations += 1
        for m in r.get("monitor") or []:
            if m.startswith("C10:reexecuted-step-"):
                chk.violation("C03:retry-run:" + m.split(":")[1], m, {"case": dict(c, ops=r["ops"]), "verdict": m, "st0": r.get("st0"), "rc0": r.get("rc0")})
            elif m.startswith("C10:unfinished-step-not-reexecuted") or m.startswith("C10:kept-step-executed"):
                # "executed exactly once if the step is runnable and never otherwise", in the retry run
                chk.violation("C03:retry-run:" + m.split(":")[1], m, {"case": dict(c, ops=r["ops"]), "verdict": m, "st0": r.get("st0"), "rc0": r.get("rc0")})
    chk.stats["retry_runs"] = n


def run(chk, replay):
    if replay and "hist_case" in json.load(open(replay)).get("case", {}):
        import hist as _h
        _h.replay_big_record(chk, "C03", "a retry decides from the recorded run which steps are executed again: the record must come back as recorded, whatever its size", json.load(open(replay))["case"]["hist_case"]); return
    if replay and "argv_case" in json.load(open(replay)).get("case", {}):
        argv_stream(chk); return
    if replay and "execs_case" in json.load(open(replay)).get("case", {}):
        x_execs.other_executors_stream(chk, json.load(open(replay))["case"]["execs_case"]); return
    sched.run_property(chk, PROP, replay)
    argv_stream(chk)
    if not replay or "init" in json.dumps(json.load(open(replay)).get("case", {}))[:100000]:
        retry_budget_stream(chk)
    if not replay:
        x_execs.other_executors_stream(chk)
        import hist as _hist
        _hist.big_record_leg(chk, "C03", "a retry decides from the recorded run which steps are executed again: the record must come back as recorded, whatever its size")
