"""C02 — scheduler family; shared stream in sched.py"""
import common, sched

PROP = "C02"


def run(chk, replay):
    sched.run_property(chk, PROP, replay)
