"""C02 — scheduler family; shared stream in sched.py (fresh runs) + a retry-run stream (c02_retry.py): C02's end-of-run
clauses read off the final state of retry runs (NewExecutionGraphForRetry + Schedule on recorded vectors)"""
import json
import common, sched, c02_retry

PROP = "C02"


def _is_retry_replay(replay):
    rc = json.load(open(replay)).get("case", {})
    c = rc.get("case", rc) if isinstance(rc, dict) else {}
    return isinstance(c, dict) and bool(c.get("init"))


def run(chk, replay):
    sched.run_property(chk, PROP, replay)
    if not replay or _is_retry_replay(replay):
        c02_retry.stream(chk, replay)
