"""C07 — recorded history survives a crash at any instant.
   Real crashes: the recording/admin process (harness `exec` mode over the real jsondb) is killed by
   strace (-e inject=<syscall>:signal=KILL:when=k) BEFORE its k-th openat/write/unlinkat/renameat/… on
   the data directory, for every such system call of the victim operation(s); a write is additionally
   torn at byte offsets. The surviving directory is queried by a fresh process; answers are judged by
   an independent monitor, and the directory state must be one of the Lean model's crash states."""
import calendar, concurrent.futures as cf, hashlib, json, os, re, shutil, subprocess, tempfile, time
import common, hist
from p_c06 import tie_names

SYSCALLS = ["openat", "write", "unlinkat", "renameat", "renameat2", "rename", "unlink", "mkdirat", "mkdir", "rmdir", "fsync", "ftruncate"]
NAMES = ["a", "a b", "a.b", "ab", "a_c", "job[1]", "job*", "data\\x", "très"]


def gen_case(rng, cid):
    nd = rng.randint(2, 3)
    dags = [n + ".yaml" for n in rng.sample(NAMES, nd)]
    base = hist.BASE + rng.randrange(3) * hist.DAY
    ops, runs, pay, nreq, k = [], [], 0, 0, 0      # runs: (d, req, t)
    times = []
    def newt():
        if times and rng.random() < 0.4:
            return (rng.choice(times) // 1000) * 1000 + rng.randrange(1000)
        return base + rng.randrange(2 * hist.DAY)
    for _ in range(rng.randint(1, 5)):
        d = rng.randrange(nd); t = newt(); times.append(t)
        req = "%08x-%04d" % (rng.randrange(1 << 32), nreq); nreq += 1
        ops.append({"op": "open", "k": k, "d": d, "t": t, "req": req})
        for _ in range(rng.randint(1, 3)):
            ops.append({"op": "write", "k": k, "req": req, "p": "p%d" % pay, "st": rng.choice([1, 1, 4])}); pay += 1
        ops.append({"op": "close", "k": k}); k += 1
        runs.append((d, req, t))
        if rng.random() < 0.25:
            ops.append({"op": "update", "d": d, "req": req, "p": "p%d" % pay, "st": 2}); pay += 1
    kind = rng.choice(["run", "run", "run", "update", "rename", "removeOld"])
    victim = []
    if kind == "update" and runs:
        d, req, _ = rng.choice(runs)
        victim = [{"op": "update", "d": d, "req": req, "p": "p%d" % pay, "st": 4, "big": rng.choice([0, 0, 70000])}]; pay += 1
    elif kind == "rename" and runs:
        d = rng.choice(runs)[0]; d2 = rng.choice([x for x in range(nd) if x != d])
        victim = [{"op": "rename", "d": d, "d2": d2}]
    elif kind == "removeOld" and runs:
        d = rng.choice(runs)[0]
        ops.append({"op": "age", "d": d, "days": 3})
        if rng.random() < 0.5:       # one fresh run that must survive the clean-up
            t = newt(); req = "%08x-%04d" % (rng.randrange(1 << 32), nreq); nreq += 1
            ops += [{"op": "open", "k": k, "d": d, "t": t, "req": req}, {"op": "write", "k": k, "req": req, "p": "p%d" % pay, "st": 4},
                    {"op": "close", "k": k}]; pay += 1; k += 1; runs.append((d, req, t))
        victim = [{"op": "removeOld", "d": d, "days": 2}]
    else:
        kind = "run"
        d = rng.randrange(nd); t = newt()
        req = "%08x-%04d" % (rng.randrange(1 << 32), nreq); nreq += 1
        victim = [{"op": "open", "k": k, "d": d, "t": t, "req": req}]
        for _ in range(rng.randint(1, 3)):
            victim.append({"op": "write", "k": k, "req": req, "p": "p%d" % pay, "st": rng.choice([1, 1, 4]),
                           "big": rng.choice([0] * 6 + [5000, 70000])}); pay += 1
        victim.append({"op": "close", "k": k})
        runs.append((d, req, t))
    return {"id": "k%d" % cid, "dags": dags, "ops": ops, "victim": victim, "kind": kind, "today": False,
            "reqs": sorted({r[1] for r in runs}), "ns": [1, 2, 5]}


def stamp_ms(name):
    m = re.search(r"\.(\d{8})\.(\d\d):(\d\d):(\d\d)\.(\d{3})\.([0-9a-f]{8})(_c)?\.dat$", name)
    if not m:
        return None
    d = m.group(1)
    sec = calendar.timegm((int(d[:4]), int(d[4:6]), int(d[6:8]), int(m.group(2)), int(m.group(3)), int(m.group(4))))
    return sec * 1000 + int(m.group(5)), int(m.group(6), 16), 1 if m.group(7) else 0


def canon_observed(root, c, files):
    dirs = {}
    for i, d in enumerate(c["dags"]):
        path = os.path.join(root, "dags", d)
        pref = os.path.splitext(os.path.basename(d))[0]
        dirs["%s-%s" % (pref, hashlib.md5(path.encode()).hexdigest())] = i
    items = []
    for f in files:
        dn, bn = os.path.split(f["rel"])
        sm = stamp_ms(bn)
        if dn not in dirs or sm is None:
            items.append("?" + f["rel"]); continue
        items.append("%d.%d.%d.%d.%s" % (dirs[dn], sm[0], sm[1], sm[2], f["last"][1:] if f["last"] else "-"))
    return ",".join(sorted(items))


class Runner:
    def __init__(self, binp, c, work):
        self.binp, self.c = binp, c
        self.root = os.path.join(work, c["id"], "root")
        self.backup = os.path.join(work, c["id"], "backup")
        os.makedirs(self.root)
        self.priorf = os.path.join(work, c["id"], "prior.json")
        self.victf = os.path.join(work, c["id"], "victim.json")
        self.casef = os.path.join(work, c["id"], "case.json")
        json.dump(dict(c, ops=c["ops"]), open(self.priorf, "w"))
        json.dump(dict(c, ops=c["victim"]), open(self.victf, "w"))
        json.dump(c, open(self.casef, "w"))
        self.env = dict(os.environ, GOMAXPROCS="1")

    def restore(self):
        shutil.rmtree(self.root, ignore_errors=True)
        shutil.copytree(self.backup, self.root, symlinks=True)   # copystat keeps mtimes (retention)

    def prepare(self):
        p = subprocess.run([self.binp, "exec", self.root, self.priorf], env=self.env, stdout=subprocess.PIPE, stderr=subprocess.PIPE, timeout=60)
        if p.returncode != 0:
            raise RuntimeError("prior history failed: " + p.stderr.decode()[-300:])
        shutil.copytree(self.root, self.backup, symlinks=True)

    def calibrate(self):
        log = os.path.join(os.path.dirname(self.root), "strace.log")
        p = subprocess.run(["strace", "-f", "-y", "-e", "trace=" + ",".join(SYSCALLS), "-o", log, self.binp, "exec", self.root, self.victf],
                           env=self.env, stdout=subprocess.PIPE, stderr=subprocess.PIPE, timeout=60)
        counts, points = {}, []
        data = os.path.join(self.root, "data")
        for line in open(log, errors="replace"):
            m = re.match(r"\d+\s+(\w+)\(", line)
            if not m or "resumed>" in line:
                continue
            nm = m.group(1)
            counts[nm] = counts.get(nm, 0) + 1
            if data in line:
                w = None
                if nm == "write":
                    mm = re.match(r"\d+\s+write\(\d+<([^>]+)>", line)
                    w = mm.group(1) if mm else None
                points.append((nm, counts[nm], w))
        return points, p.stdout.decode()

    def kill_at(self, nm, k):
        self.restore()
        p = subprocess.run(["strace", "-f", "-e", "trace=" + nm, "-e", "inject=%s:signal=KILL:when=%d" % (nm, k), "-o", "/dev/null",
                            self.binp, "exec", self.root, self.victf], env=self.env, stdout=subprocess.PIPE, stderr=subprocess.PIPE, timeout=60)
        acks = len(re.findall(r"^ack \d+$", p.stdout.decode(), re.M))
        return acks, p.returncode

    def follow_up(self):
        """the next start of every DAG of the case in the surviving directory: RemoveOld (as agent.setupDatabase does, with a
        retention no file has reached) and one more recorded run; then all queries again"""
        c = self.c
        tmax = max([o.get("t", 0) for o in c["ops"] + c["victim"]] + [0])
        ops = []
        for d in range(len(c["dags"])):
            ops += [{"op": "removeOld", "d": d, "days": 3650},
                    {"op": "open", "k": 900 + d, "d": d, "t": tmax + 60000 * (d + 1), "req": "f0110w0p-%04d" % d},
                    {"op": "write", "k": 900 + d, "req": "f0110w0p-%04d" % d, "p": "pfollow%d" % d, "st": 4},
                    {"op": "close", "k": 900 + d}]
        ff = os.path.join(os.path.dirname(self.root), "follow.json")
        json.dump(dict(c, ops=ops), open(ff, "w"))
        p = subprocess.run([self.binp, "exec", self.root, ff], env=self.env, stdout=subprocess.PIPE, stderr=subprocess.PIPE, timeout=60)
        if p.returncode != 0:
            return None
        return self.query()

    def query(self):
        p = subprocess.run([self.binp, "query", self.root, self.casef], env=self.env, stdout=subprocess.PIPE, stderr=subprocess.PIPE, timeout=60)
        if p.returncode != 0:
            return {"answer": {"find": {}, "latest": [], "recent": {}}, "files": [], "panic": "query process died rc=%d %s" % (p.returncode, p.stderr.decode()[-200:])}
        r = json.loads(p.stdout.decode()); r["files"] = r.get("files") or []; return r


def judge(c, acks, q):
    """the property, read off the answers of the surviving directory. Returns list of (signature, detail)."""
    out = []
    if q.get("panic"):
        return [("queries-crash-after-kill", q["panic"][:200])]
    A = hist.Spec(c)
    for o in c["ops"]:
        A.apply(o)
    for o in c["victim"][:acks]:
        A.apply(o)
    B = hist.Spec(c)
    for o in c["ops"]:
        B.apply(o)
    for o in c["victim"][:acks + 1]:
        B.apply(o)
    nd = len(c["dags"])
    def runs(S, d):
        return {r["req"]: r for r in S.recorded(d)}
    a = q["answer"]
    a["latest"] = a.get("latest") or []; a["find"] = a.get("find") or {}; a["recent"] = a.get("recent") or {}
    for d in range(nd):
        ra, rb = runs(A, d), runs(B, d)
        # a run counts as "must be there" if the acknowledged history has it here and the in-flight op does not take it away
        must = {k: v for k, v in ra.items() if k in rb}
        allowed = {}
        for S in (ra, rb):
            for k, v in S.items():
                allowed.setdefault(k, {"t": v["t"], "p": set()})["p"].add(v["p"])
        # rename in flight: a run of the old name may already be under the new one (and vice versa)
        for d0 in range(nd):
            if d0 == d: continue
            for k, v in runs(A, d0).items():
                if k in rb and k not in ra: pass
        for qreq in c["reqs"]:
            got = a["find"].get("%d/%s" % (d, qreq))
            if got is None: continue
            if got.startswith("!"):
                if got.startswith("!err"):
                    out.append(("lookup-error-after-crash", "dag %r req %s: %s" % (c["dags"][d], qreq, got)))
                elif qreq in must:
                    # moved away by an in-flight rename? then it must be found under the other name (checked there)
                    moved = any(qreq in runs(B, d2) or qreq in runs(A, d2) for d2 in range(nd) if d2 != d)
                    if not moved:
                        out.append(("acknowledged-run-not-found", "dag %r req %s (acknowledged status %r) is not found after the kill" % (c["dags"][d], qreq, must[qreq]["p"])))
            else:
                if qreq not in allowed or got not in allowed[qreq]["p"]:
                    older = qreq in allowed
                    out.append(("stale-or-foreign-status-returned" if older else "lookup-returns-unrecorded-run",
                                "dag %r req %s: got %r, acknowledged %r" % (c["dags"][d], qreq, got, sorted(allowed.get(qreq, {"p": []})["p"]))))
        got = a["latest"][d] if d < len(a["latest"]) else "!missing"
        if got.startswith("!err") or got == "!missing":
            out.append(("latest-status-errors-after-crash", "dag %r: %s (acknowledged runs: %d)" % (c["dags"][d], got, len(must))))
        elif got.startswith("!"):
            if must:
                out.append(("latest-status-hides-acknowledged-runs", "dag %r: %s although %d acknowledged runs exist" % (c["dags"][d], got, len(must))))
        else:
            byp = {p: k for k, v in allowed.items() for p in v["p"]}
            if got not in byp:
                out.append(("latest-returns-unrecorded-status", "dag %r: %r" % (c["dags"][d], got)))
            elif must and allowed[byp[got]]["t"] < max(v["t"] for v in must.values()):
                out.append(("latest-hides-newer-acknowledged-run", "dag %r: got %r" % (c["dags"][d], got)))
        for n in c["ns"]:
            got = a["recent"].get("%d/%d" % (d, n)) or []
            byp = {p: k for k, v in allowed.items() for p in v["p"]}
            if any(p not in byp for p in got):
                out.append(("recent-returns-unrecorded-status", "dag %r n=%d: %r" % (c["dags"][d], n, got))); continue
            reqs = [byp[p] for p in got]
            dup = len(set(reqs)) < len(reqs)      # original and twin of one run both present: not a violation by itself
            ts = [allowed[r]["t"] for r in reqs]
            if any(ts[i] < ts[i + 1] for i in range(len(ts) - 1)):
                out.append(("recent-not-newest-first", "dag %r n=%d: %r" % (c["dags"][d], n, got))); continue
            optional = [k for k in allowed if k not in must]
            M = sorted(must.values(), key=lambda r: -r["t"])
            for r in M:
                newer_opt = sum(1 for k in optional if allowed[k]["t"] >= r["t"])
                # runs that may legitimately be listed before r: strictly newer ones AND runs started in the same
                # millisecond (the property leaves the order of equal start times open)
                ahead = sum(1 for q in M if q is not r and q["t"] >= r["t"])
                if ahead + newer_opt < n and r["req"] not in reqs:
                    out.append(("recent-hides-acknowledged-run" + (":run-listed-twice-original-and-twin" if dup else ""), "dag %r n=%d: got %r, acknowledged run %s (%r) missing" % (c["dags"][d], n, got, r["req"], r["p"])))
                    break
    return out


def model_states(cases):
    import p_c06
    text = []
    for c in cases:
        full = dict(c, ops=c["ops"])
        L = p_c06.driver_text(full)
        # request numbering must also cover the victim's ids: driver_text numbers c["reqs"] first (all runs are in reqs)
        L.append("crash")
        L += p_c06.driver_text(dict(c, ops=c["victim"]))[1:]
        text += L
    rc, dout, derr = common.run_driver("hist", "\n".join(text) + "\n", timeout=600)
    res, cur = {}, None
    for l in dout.split("\n"):
        if l.startswith("case "):
            cur = l.split(" ")[1]; res[cur] = []
        elif l.startswith("states ") and cur is not None:
            res[cur].append(l[7:].split(";"))
        elif l == "states" and cur is not None:
            res[cur].append([""])
    return res, rc, derr


def one_case(binp, c, work, tier):
    """returns list of observations: dict(point, acks, canon, verdicts, torn)"""
    R = Runner(binp, c, work)
    obs = []
    try:
        R.prepare()
        points, _ = R.calibrate()
        if tier == "quick" and len(points) > 14:
            points = points[:6] + points[6::2]
        seq = []
        for (nm, k, wfile) in points:
            acks, rc = R.kill_at(nm, k)
            q = R.query()
            sizes = {f["rel"]: f["size"] for f in q["files"]}
            seq.append((nm, k, wfile, acks, rc, q, sizes))
            obs.append({"point": "%s#%d" % (nm, k), "acks": acks, "rc": rc, "canon": canon_observed(R.root, c, q["files"]),
                        "verdicts": judge(c, acks, q), "torn": 0})
            # "afterwards" does not end with the first query: the next run of the DAG starts as usual (retention clean-up
            # with a retention nothing has reached, a new recorded run) - every run that was found right after the kill is
            # still found, with the same status
            if tier == "thorough" or len(obs) % 2 == 0:
                q2 = R.follow_up()
                if q2 is not None:
                    v2 = []
                    if q2.get("panic"):
                        v2.append(("queries-crash-after-the-next-run", q2["panic"][:200]))
                    else:
                        f1, f2 = q["answer"].get("find") or {}, q2["answer"].get("find") or {}
                        for key, was in sorted(f1.items()):
                            now = f2.get(key)
                            if not was.startswith("!") and now != was:
                                v2.append(("run-found-after-the-kill-lost-or-changed-once-the-next-run-started",
                                           "look-up %s answered %r right after the kill and %r after a retention clean-up (3650 days) and one more recorded run" % (key, was, now)))
                                break
                    obs.append({"point": "%s#%d+next-run" % (nm, k), "acks": acks, "rc": rc, "canon": None, "verdicts": v2, "torn": 0, "followup": 1})
        # final (no kill)
        R.restore()
        p = subprocess.run([binp, "exec", R.root, R.victf], env=R.env, stdout=subprocess.PIPE, stderr=subprocess.PIPE, timeout=60)
        q = R.query()
        final_sizes = {f["rel"]: f["size"] for f in q["files"]}
        obs.append({"point": "end", "acks": len(c["victim"]), "rc": p.returncode, "canon": canon_observed(R.root, c, q["files"]),
                    "verdicts": judge(c, len(c["victim"]), q), "torn": 0})
        # torn writes: C0 = file content when killed before the write, C1 = when killed before the NEXT data-dir call
        # (write done). The kernel transfers the bytes in order from the write offset, so a write torn after b bytes is
        # C0 + data[:b] for an appending write and C1[:b] + C0[b:] for a write that overwrites from the start.
        def content(rel):
            fp = os.path.join(R.root, "data", rel)
            return open(fp, "rb").read() if os.path.exists(fp) else None
        for i, (nm, k, wfile, acks, rc, q0, sizes) in enumerate(seq):
            if nm != "write" or not wfile:
                continue
            rel = os.path.relpath(wfile, os.path.join(R.root, "data"))
            R.kill_at(nm, k); c0 = content(rel)
            nxt = seq[i + 1] if i + 1 < len(seq) else None
            if nxt:
                R.kill_at(nxt[0], nxt[1])
            else:
                R.restore(); subprocess.run([binp, "exec", R.root, R.victf], env=R.env, stdout=subprocess.PIPE, stderr=subprocess.PIPE, timeout=60)
            c1 = content(rel)
            if c0 is None or c1 is None or c0 == c1:
                continue
            appending = c1.startswith(c0)
            nwritten = len(c1) - len(c0) if appending else len(c1)   # overwrite: at least up to the end of the new content
            if nwritten < 2:
                continue
            cuts = sorted({1, nwritten // 2, nwritten - 1})
            for b in (cuts if tier == "thorough" else cuts[1:]):
                R.kill_at(nm, k)
                fp = os.path.join(R.root, "data", rel)
                torn = c0 + c1[len(c0):len(c0) + b] if appending else c1[:b] + c0[b:]
                open(fp, "wb").write(torn)
                q = R.query()
                obs.append({"point": "%s#%d+torn@%d/%d%s" % (nm, k, b, nwritten, "" if appending else "(overwriting)"), "acks": acks, "rc": rc,
                            "canon": canon_observed(R.root, c, q["files"]), "verdicts": judge(c, acks, q), "torn": 1,
                            "cut_at_newline": b == nwritten - 1})
    finally:
        shutil.rmtree(os.path.join(work, c["id"]), ignore_errors=True)
    return obs


def reader_race_stream(chk, binp):
    """a long-lived reader polls while recorders write acknowledged statuses and are killed (no compaction): what the
    reader's store answers afterwards must be the acknowledged status (it must not keep an older view)"""
    import hist
    cases = [hist.gen_killed_recorder_race_case(chk.rng, k, 250) for k in range(10 if chk.tier == "quick" else 50)]
    results, rc, err = hist.run_cases(binp, cases)
    if rc != 0:
        chk.oblige("harness-run:hist-reader-race", False, err[-1500:]); return
    n = 0
    for c in cases:
        r = results.get(c["id"])
        if not r or r.get("panic"):
            chk.oblige("harness-run:hist-reader-race:" + c["id"], False, json.dumps(r)[:300]); continue
        spec = hist.Spec(c)
        for i, (o, a) in enumerate(zip(c["ops"], r["answers"] or [])):
            spec.apply(o)
            if a.get("skip"):
                continue
            n += 1; chk.evaluations += 1
            bad = next(iter(spec.check(a, i)), None)
            if bad:
                chk.violation("C07:acknowledged-status-hidden-from-long-lived-reader:" + bad[0],
                              "%s (after op %d %s: the recorder was killed right after an acknowledged write while a reader was polling)" % (bad[1], i, json.dumps(o)),
                              {"race_case": c, "op_index": i})
                break
    chk.stats = dict(getattr(chk, "stats", None) or {}, reader_race_answers=n)


def run(chk, replay):
    if replay and "cache_ops" in json.load(open(replay)).get("case", {}):
        import x_cache
        common.lean_obligations(chk, "BdModel/Props/C07.lean", {"Hist": tie_names("Hist")}, extra_props=["BdModel/Props/C07Cache.lean"])
        x_cache.stream(chk, "C07", json.load(open(replay))["case"]); return
    if replay and "race_case" in json.load(open(replay)).get("case", {}):
        binp, out = common.build_harness("hist")
        reader_race_stream(chk, binp); return
    chk.trusted = common.TRUSTED_COMMON + [
        "process crash = prefix of the mutating system calls, a write cut at any byte (SIGKILL on a local file system; NOT a power-loss model)",
        "strace 6.1 signal injection delivers SIGKILL before the k-th call executes (checked: the call's effect is absent)",
        "encoding/json: no proper prefix of a status object parses (reader ignores a torn trailing fragment)"]
    chk.assumptions = ["power loss / fsync ordering is out of scope (the property says: process is killed)",
                       "operations issued AFTER a crash on a file that ends in a torn fragment (e.g. a manual update appended to it) are outside the property's quantifier"]
    common.lean_obligations(chk, "BdModel/Props/C07.lean", {"Hist": tie_names("Hist")}, extra_props=["BdModel/Props/C07Cache.lean"])
    binp, out = common.build_harness("hist")
    if not binp:
        chk.oblige("harness-build:hist", False, out[-3000:]); return
    chk.oblige("harness-build:hist", True)
    rc, o = common.sh(["strace", "-V"])
    if rc != 0:
        chk.oblige("strace-available", False, o); return
    rng = chk.rng
    if replay:
        rp = json.load(open(replay)); cases = [rp["case"]["case"] if "case" in rp["case"] else rp["case"]]
    else:
        cases = [gen_case(rng, k) for k in range(48 if chk.tier == "quick" else 240)]
    states, rc, derr = model_states(cases)
    if rc != 0:
        chk.oblige("driver-run:hist-crash", False, derr[-2000:]); return
    work = tempfile.mkdtemp(prefix="verif-c07-")
    allobs = {}
    try:
        with cf.ThreadPoolExecutor(12) as ex:
            futs = {ex.submit(one_case, binp, c, work, chk.tier): c for c in cases}
            for f in cf.as_completed(futs):
                c = futs[f]
                try:
                    allobs[c["id"]] = f.result()
                except Exception as e:
                    chk.oblige("harness-run:crash:" + c["id"], False, repr(e))
    finally:
        shutil.rmtree(work, ignore_errors=True)
    stat = {"kill_points": 0, "torn_states": 0, "killed": 0, "survived": 0, "by_kind": {}, "by_syscall": {}, "acks_hist": {}}
    dis = 0
    for c in cases:
        for ob in allobs.get(c["id"], []):
            chk.evaluations += 1
            stat["kill_points"] += 1 - ob["torn"]; stat["torn_states"] += ob["torn"]
            stat["killed"] += ob["rc"] != 0; stat["survived"] += ob["rc"] == 0
            stat["by_kind"][c["kind"]] = stat["by_kind"].get(c["kind"], 0) + 1
            sc = ob["point"].split("#")[0]
            stat["by_syscall"][sc] = stat["by_syscall"].get(sc, 0) + 1
            stat["acks_hist"][str(ob["acks"])] = stat["acks_hist"].get(str(ob["acks"]), 0) + 1
            if ob["rc"] != 0:
                chk.nontrivial.add(c["id"] + ob["point"])
            for sig, detail in ob["verdicts"]:
                chk.violation("C07:%s:%s" % (sig, c["kind"]), "%s — kill at %s of victim %s after %d acknowledged ops" % (
                    detail, ob["point"], c["kind"], ob["acks"]), {"case": c, "point": ob["point"], "acks": ob["acks"]})
            if ob.get("followup"):
                stat["next_run_after_kill"] = stat.get("next_run_after_kill", 0) + 1
                continue            # (judged above; the model's crash states describe the directory right after the kill)
            # correspondence: the surviving directory is one of the model's crash states of the op in flight
            st = states.get(c["id"], [])
            a = ob["acks"]
            cand = set()
            for j in (a - 1, a):        # the kill may precede the first call of op a (= final state of op a-1)
                if 0 <= j < len(st):
                    cand |= set(st[j])
            if ob.get("cut_at_newline") and a < len(st):
                cand |= set(st[a])
            if st and ob["canon"] not in cand:
                dis += 1; chk.disagreements += 1
                if dis <= 3:
                    chk.oblige("correspondence:crash-state:%s@%s" % (c["id"], ob["point"]), False,
                               "observed=%s\nmodel crash states of op %d=%s\ncase=%s" % (ob["canon"], a, sorted(cand), json.dumps(c)))
    chk.disagreements_checked = chk.disagreements
    if dis == 0:
        chk.oblige("correspondence:crash-states (every surviving directory = one of the model's crash states of the operation in flight)", True)
    chk.stats = dict(chk.stats or {}, **stat)
    if not replay:
        import x_cache
        x_cache.stream(chk, "C07")
    if not replay:
        reader_race_stream(chk, binp)
    chk.samples = [{"kind": c["kind"], "victim": c["victim"], "points": [o["point"] for o in allobs.get(c["id"], [])][:12]} for c in cases[:3]]
    chk.rule = ("prior history of 1-5 completed runs (+updates) over 2-3 DAG files (names with spaces, dots, glob metacharacters, _c, UTF-8; "
                "same-second starts); victim = a whole recording run (open, write x1-3, close) | manual update | rename | remove-old; the "
                "victim process is SIGKILLed before EVERY system call that touches the data directory (quick tier: subsampled beyond 14), "
                "plus writes torn at 2-3 byte offsets; evaluations = crash states queried; non-trivial = process really killed")
