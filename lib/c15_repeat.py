"""C15 — repeating steps under limit pressure (the slot of a step that waits out its REPEAT interval).

A repeating step (`repeatPolicy.repeat`) keeps the status `running` between two iterations, so `runningCount` goes on
counting it and no other step is admitted into "its" slot while its worker sleeps the repeat interval: the worker starts
the next iteration WITHOUT an admission check (the repeat loop lives inside the worker; only the Schedule loop looks at
maxActiveRuns).  If the slot were handed out during the interval, the step admitted meanwhile and the next iteration
would execute together: k+1 commands with maxActiveRuns = k.

Flavour: k in {1,2}; one or two repeating steps with a repeat interval (`repInt`, ms); more ready steps than slots,
listed before and after the repeating step(s); the scripted executor ends an iteration when the harness releases it
(`rel i true`), the worker then sleeps the interval and the harness waits it out (quiesce in go/harness/sched/main.go:
a step labelled running with nothing in flight is not a quiescent point), so a waiting step that is admitted during the
interval is still blocked in its executor (= executing) when the next iteration starts.  The run is ended by a stop
after a PRNG number of releases (`relstop i` puts it inside the interval), as in the shared stream.

Judged by the harness's C15 clause (`C15:limit-exceeded:max=k observed=…`, from the executor start/end events of the
real scheduler) and compared with the Lean model (driver mode `sched`) on every quiescent snapshot.  The cases have the
format of the shared stream (lib/sched.py): replays go through sched.run_stream.
"""
import json, os
import common, sched

REP_INT_MS = 40


def _plain(deps=(), limit=0, fails=0, cf=False):
    return {"deps": list(deps), "cf": cf, "cs": False, "limit": limit, "pre": 0, "prev": 0, "fails": fails,
            "obeys": True, "sig": "", "rep": False}


def gen_repeat_pressure_case(rng, k):
    kk = rng.choice([1, 1, 2, 2, 2])
    nrep = rng.choice([1, 1, 1, 2])
    nother = kk + rng.randint(1, 3)                      # more ready steps than slots, whatever the repeating steps do
    kinds = ["rep"] * nrep + ["other"] * nother
    rng.shuffle(kinds)
    r = rng.random()
    if r < 0.3:                                          # the repeating step heads the list (it gets a slot at once)
        kinds.remove("rep"); kinds.insert(0, "rep")
    elif r < 0.5:                                        # ... or is listed after exactly as many steps as there are slots:
        kinds.remove("rep"); kinds.insert(min(kk, len(kinds)), "rep")    # it is the first one held back by the limit
    nodes, others = [], []
    for i, kind in enumerate(kinds):
        if kind == "rep":
            # no continueOn.failure (the monitor's C15 clause leaves that corner - labelled failed while executing -
            # to observation O1), no failures: the step goes on repeating until the stop
            nd = _plain(); nd["rep"] = True
        else:
            deps = [rng.choice(others)] if others and rng.random() < 0.2 else []   # becomes ready while the slots are taken
            limit = rng.choice([0, 0, 0, 1])
            fails = rng.choice([0, 1]) if limit else rng.choice([0, 0, 0, 0, -1])
            nd = _plain(deps, limit, fails, cf=rng.random() < 0.3)
            others.append(i)
        nodes.append(nd)
    first_rep = kinds.index("rep")
    # enough releases before the stop for the steps listed before the repeating step to make room for it and for the
    # repeating step to end (at least) one iteration while other steps wait
    stop = first_rep + rng.randint(2, 5)
    return {"id": "rp%d" % k, "nodes": nodes, "maxActive": kk, "handlers": [rng.choice([0, 1]) for _ in range(4)],
            "stopAfter": stop, "seed": rng.randrange(1 << 30), "dry": False, "repInt": REP_INT_MS}


def _interval_under_pressure(c, r):
    """did an iteration of a repeating step end (rel i true / relstop i) at a quiescent point where a step that is
    not started had every dependency licensed (it only waited for a slot)?  = the situation the flavour is about"""
    n = len(c["nodes"])
    hits = 0
    for k, op in enumerate(r["ops"]):
        w = op.split(" ")
        if w[0] not in ("rel", "relstop") or k >= len(r["snaps"]):
            continue
        i = int(w[1])
        if i >= n or not c["nodes"][i]["rep"] or (w[0] == "rel" and w[2] != "true"):
            continue
        st = r["snaps"][k]["st"]

        def lic(d):
            nd = c["nodes"][d]
            return st[d] == "finished" or (st[d] == "failed" and nd["cf"]) or (st[d] == "skipped" and nd["cs"])
        if any(st[j] == "not started" and all(lic(d) for d in c["nodes"][j]["deps"]) for j in range(n)):
            hits += 1
    return hits


def _harness_binary():
    p = os.path.join(common.BIN, "sched.%d" % os.getpid())       # built by sched.run_stream in this process
    if os.path.exists(p):
        return p, ""
    return common.build_harness("sched")


def run(chk, prop="C15"):
    import time
    t0 = time.time()
    binp, out = _harness_binary()
    if not binp:
        chk.oblige("harness-build:sched", False, out[-3000:])
        return
    ncases = 24 if chk.tier == "quick" else 240
    cases = [gen_repeat_pressure_case(chk.rng, k) for k in range(ncases)]
    results = sched.run_harness(binp, cases)
    stat = {"cases": len(cases), "max1": 0, "max2": 0, "two_repeating": 0, "iterations_ended": 0,
            "iteration_ended_while_a_ready_step_waited": 0, "cases_with_that": 0, "stopped_inside_interval": 0, "hang": 0}
    for c in cases:
        r = results.get(c["id"])
        chk.evaluations += 1
        if r is None:
            chk.oblige("harness-run:no-result:" + c["id"], False, ""); continue
        if r.get("crash"):
            chk.violation("%s:harness-process-crashed" % prop, "the scheduler crashed the process: " + r["crash"][-300:], {"case": c})
            continue
        stat["max%d" % c["maxActive"]] += 1
        stat["two_repeating"] += sum(nd["rep"] for nd in c["nodes"]) > 1
        stat["iterations_ended"] += sum(1 for e in r["events"] if e["k"] == "end" and e["n"] < len(c["nodes"]) and c["nodes"][e["n"]]["rep"])
        h = _interval_under_pressure(c, r)
        stat["iteration_ended_while_a_ready_step_waited"] += h
        stat["cases_with_that"] += h > 0
        stat["stopped_inside_interval"] += any(op.startswith("relstop ") for op in r["ops"])
        stat["hang"] += bool(r.get("hang"))
        if h:
            chk.nontrivial.add(json.dumps(c["nodes"], sort_keys=True) + str(c["maxActive"]) + str(c["stopAfter"]) + str(c["handlers"]))
        mon = r.get("monitor") or []
        if any(sched.is_timing_verdict(m) for m in mon):
            # judged against wall-clock patience: confirm on the case alone before it counts
            again = sched.run_harness(binp, [c], workers=1, quiet_ms=25).get(c["id"]) or {}
            keep = {":".join(m.split(":")[:2]) for m in (again.get("monitor") or [])}
            mon = [m for m in mon if not (sched.is_timing_verdict(m) and ":".join(m.split(":")[:2]) not in keep)]
        for m in mon:
            if m.startswith(prop + ":"):
                what = m
                if m.startswith("C15:limit-exceeded"):
                    what += (" (repeating step + repeat interval of %d ms under limit pressure: step commands executing at once, "
                             "from the executor start/end events)" % c["repInt"])
                chk.violation(":".join(m.split(":")[:2]), what,
                              {"case": dict(c, ops=r["ops"]), "verdict": m, "snaps": r["snaps"][-2:], "events": r["events"][:200]})
    # the flavour must reach the situation it is about (on any tree)
    chk.oblige("coverage:%s:repeat-interval-under-limit-pressure (an iteration of a repeating step ends while a ready step waits "
               "for a slot)" % prop, stat["cases_with_that"] >= max(3, ncases // 4), json.dumps(stat))
    # correspondence with the model (same driver mode as the shared stream)
    dis, rc, derr = sched.batch_compare(cases, results)
    if rc != 0:
        chk.oblige("driver-run:sched:repeat-pressure", False, derr[-2000:])
    persistent = []
    chk.disagreements += max(0, len(dis) - 6)
    for c in dis[:6]:
        chk.disagreements += 1
        why = None
        for attempt in range(3):
            rr = sched.run_harness(binp, [c], workers=1, quiet_ms=12 + 10 * attempt)[c["id"]]
            if rr.get("crash"):
                why = "crash"; break
            why = sched.compare(c, rr)
            if why is None:
                break
        chk.disagreements_checked += 1
        if why is not None:
            persistent.append((c, why))
    for c, why in persistent[:3]:
        chk.oblige("correspondence:sched:repeat-pressure:%s" % c["id"], False, why + "\ncase=" + json.dumps(c))
    if not persistent:
        chk.oblige("correspondence:sched:repeat-pressure (model = implementation on every quiescent snapshot; repeating steps, "
                   "repeat interval, maxActiveRuns 1-2, more ready steps than slots)", True)
    stat["persistent_disagreements"] = len(persistent)
    stat["wall_s"] = round(time.time() - t0, 1)
    chk.stats = dict(chk.stats or {}, repeat_pressure=stat)
    chk.samples = list(chk.samples or []) + [{"case": c, "ops": results[c["id"]]["ops"], "final": (results[c["id"]]["snaps"] or [None])[-1]}
                                              for c in cases[:1] if c["id"] in results]
    chk.rule = (chk.rule or "") + ("; plus %d repeat-pressure DAGs (maxActiveRuns 1-2, 1-2 repeating steps with a %d ms repeat interval "
                                   "among 2-5 other steps, stop after a PRNG number of releases, possibly inside the interval)" % (ncases, REP_INT_MS))
    return persistent
