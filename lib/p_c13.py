"""C13 — any file content is either rejected with an error or yields a runnable DAG."""
import copy, json, subprocess
import common
from loadgen import M, enc, is_map, is_float, show, strings_of

TIE = {"Load": ["h_load_build", "h_load_buildSchedule", "h_load_parseScheduleMap", "h_load_parseSchedules",
                "h_load_buildSteps", "h_load_buildStep", "h_load_buildHandlers", "h_load_buildMiscs",
                "h_load_buildConditions", "h_load_assertStepDef", "h_load_assertFunctions", "h_load_parseFuncCall",
                "h_load_parseCommand", "h_load_parseExecutor", "h_load_convertMap", "h_load_parseSubWorkflow",
                "h_load_parseMiscs", "h_load_loadVariables", "h_load_parseKeyValue", "h_load_buildEnvs",
                "h_load_decode", "h_load_unmarshalData", "h_load_loadYAML", "h_load_loadDAG",
                "h_load_assertNoNullElements", "h_load_parseCron", "h_load_convertValue",
                "defStructs"],
       # the daemon's entry reader is a caller of the loader that must survive whatever the loader says
       "Cron": ["h_cron_Read", "h_cron_initDags", "h_cron_watchDags", "h_cron_newEntryReader"]}

ENTRIES = ["LoadYAML", "LoadMetadata", "LoadWithoutEval", "Load"]

# ------------------------------------------------------------------ grammar of valid definitions

NAMES = ["s1", "build", "deploy step", "α-step", "x", "fetch_data", "a.b"]
COMMANDS = ["true", "echo hi", "sleep 0", "echo $HOME done", "/bin/sh -c 'exit 0'"]
ODD_COMMANDS = ["", " ", " echo hi", "\ttrue"]
CRONS = ["* * * * *", "0 1 * * *", "*/5 * * * *", "0 0 1 1 *", "TZ=UTC * * * * *", "CRON_TZ=Asia/Tokyo 0 9 * * 1-5"]
ODD_CRONS = ["bad cron", "TZ=UTC", "CRON_TZ=UTC", "60 * * * *", "", "@daily", ", * * * *", "* * * *", "TZ=Nowhere/Land * * * * *"]
SIGNALS = ["SIGTERM", "SIGINT", "SIGKILL", "SIGUSR1", "SIGUSR2", "SIGHUP", "SIGQUIT", "SIGCONT", "SIGSTOP", "SIGWINCH", "SIGALRM", "SIGPIPE"]
ODD_SIGNALS = ["TERM", "", "sigterm", "SIGFOO", "9"]


def signal_spelling(r):
    """a signalOnStop value in one of the spellings people write: canonical, lower case, without the SIG prefix, mixed case,
    numeric, with surrounding blanks, garbage, empty"""
    c = r.choice(SIGNALS)
    bare = c[3:]
    return r.choice([
        c, c, c, c.lower(), bare, bare.lower(), c.capitalize(), "Sig" + bare.capitalize(), "sig" + bare, "SIG" + bare.lower(), bare.capitalize(),
        " " + c, c + " ", " " + c.lower() + " ", "\t" + bare, c + "\n",
        r.choice(["9", "15", "2", "0", "-9", "SIG9", "SIG15"]),
        r.choice(["SIGFOO", "SIG", "foo", c + "2", "TERM SIG", "SIG" + c, "sig", "SIGRTMIN", "SIGRTMIN+1", "KILL -9", c + "," + c, "signal"]),
        ""])
EXPECTED = ["ok", "re:^o.*$", "1", "re:[0-9]+", ""]
ODD_EXPECTED = ["re:[(", "re:", "re:*", "re:(?P<x", "re:a{2,1}"]
ENVKEYS = ["VERIF_A", "VERIF_B", "VERIF_LONG_NAME_1"]
ODD_ENVKEYS = ["", "A=B"]
EXECTYPES = ["docker", "http", "command", "ssh", "jq", "mail"]
FLOATS = ["1.5", "0.0", "-2.25", "1e3", ".nan", ".inf", "-.inf"]
PARAMS = ["", "a b", "X=1 y", "\"quoted value\" z", "k=v"]


def gen_cond(r):
    return M(condition=r.choice(["$HOME", "x", "${VERIF_A}", "1"]), expected=r.choice(EXPECTED))


def gen_schedule(r):
    k = r.random()
    if k < 0.35:
        return r.choice(CRONS)
    if k < 0.6:
        return [r.choice(CRONS) for _ in range(r.randint(0, 3))]
    keys = r.sample(["start", "stop", "restart"], r.randint(1, 3))
    items = [(key, r.choice(CRONS) if r.random() < 0.5 else [r.choice(CRONS) for _ in range(r.randint(0, 2))]) for key in keys]
    if r.random() < 0.45:
        # keys whose value is null, of a wrong type or an empty list NEXT TO valued keys: parseScheduleMap has no case for
        # them and must leave that key's list alone whatever order Go's map iteration visits the keys in
        for key in r.sample(["start", "stop", "restart"], r.randint(1, 2)):
            odd = r.choice([None, None, 5, M(), True, ("d", "1.5"), [], M(x="* * * * *"), 0, False])
            items = [(k, v) for k, v in items if k != key] + [(key, odd)]
        if not any(isinstance(v, (str, list)) and v for k, v in items):
            other = [k for k in ["start", "stop", "restart"] if k not in [i[0] for i in items]]
            items.append((other[0] if other else "start", r.choice(CRONS)))
        r.shuffle(items)
    return M(*items)


def gen_config_value(r, depth=0):
    k = r.random()
    if depth > 2 or k < 0.45:
        return r.choice(["img:latest", "x", 1, 80, True, False, None, ("d", "1.5"), ("d", r.choice(FLOATS))])
    if k < 0.7:
        return M(*[(r.choice(["a", "b", "image", "pull"]) + str(i), gen_config_value(r, depth + 1)) for i in range(r.randint(0, 3))])
    # lists of scalars (incl. non-finite floats), of maps and of lists
    return [r.choice(["-v", "x", 1, True, ("d", r.choice(FLOATS))]) if r.random() < 0.7 else gen_config_value(r, depth + 1)
            for _ in range(r.randint(0, 3))]


def gen_executor(r):
    if r.random() < 0.4:
        return r.choice(EXECTYPES)
    items = [("type", r.choice(EXECTYPES))]
    if r.random() < 0.8:
        items.append(("config", M(*[(k, gen_config_value(r)) for k in r.sample(["image", "url", "headers", "opts", "n"], r.randint(0, 3))])))
    r.shuffle(items)
    return M(*items)


def gen_step(r, i, prev, funcs, handler=False):
    items = []
    if not handler:
        items.append(("name", "%s%d" % (r.choice(NAMES), i)))
    form = r.random()
    if funcs and form < 0.15:
        f = r.choice(funcs)
        pn = f["params"].split(" ")
        items.append(("call", M(function=f["name"], args=M(*[(p, r.choice(["v", 1, "two words", 0])) for p in pn]))))
    elif form < 0.25:
        items.append(("run", r.choice(["sub_dag", "other"])))
        if r.random() < 0.5:
            items.append(("params", r.choice(PARAMS)))
    elif form < 0.4:
        items.append(("executor", gen_executor(r)))
        if r.random() < 0.5:
            items.append(("command", r.choice(COMMANDS)))
    elif form < 0.6:
        items.append(("command", [r.choice(["echo", "true", "sh"])] + [r.choice(["a", 1, "-c", True, ("d", "1.5")]) for _ in range(r.randint(0, 2))]))
    else:
        items.append(("command", r.choice(COMMANDS)))
    if r.random() < 0.2:
        items.append(("script", "echo from-script\n"))
    if r.random() < 0.3:
        items.append(("description", "step %d" % i))
    if prev and not handler and r.random() < 0.5:
        items.append(("depends", r.sample(prev, min(len(prev), r.randint(1, 2)))))
    if r.random() < 0.3:
        items.append(("preconditions", [gen_cond(r) for _ in range(r.randint(0, 2))]))
    if r.random() < 0.25:
        items.append(("continueOn", M(failure=r.random() < 0.5, skipped=r.random() < 0.5)))
    if r.random() < 0.25:
        items.append(("retryPolicy", M(limit=r.randint(0, 3), intervalSec=r.randint(0, 5))))
    if r.random() < 0.15:
        items.append(("repeatPolicy", M(repeat=True, intervalSec=r.randint(1, 5))))
    if r.random() < 0.25:
        items.append(("signalOnStop", r.choice(SIGNALS) if r.random() < 0.5 else signal_spelling(r)))
    if r.random() < 0.15:
        items.append(("output", "OUT_%d" % i))
    if r.random() < 0.1:
        items.append(("mailOnError", r.random() < 0.5))
    if r.random() < 0.1:
        items.append(("dir", "/tmp"))
    return M(*items)


def gen_def(r):
    items = []
    if r.random() < 0.8:
        items.append(("name", r.choice(["daily", "etl job", "d1", "über"])))
    if r.random() < 0.3:
        items.append(("description", "generated"))
    if r.random() < 0.2:
        items.append(("group", "g"))
    if r.random() < 0.6:
        items.append(("schedule", gen_schedule(r)))
    if r.random() < 0.5:
        pairs = [(k, r.choice(["v", "$HOME/x", 1, True, "${VERIF_A}-y"])) for k in r.sample(ENVKEYS, r.randint(1, 3))]
        items.append(("env", M(*pairs) if r.random() < 0.5 else [M(p) for p in pairs]))
    if r.random() < 0.3:
        items.append(("logDir", "/tmp/verif-logs"))
    if r.random() < 0.4:
        items.append(("params", r.choice(PARAMS)))
    funcs = []
    if r.random() < 0.35:
        for i in range(r.randint(1, 2)):
            pn = r.sample(["a", "b", "c"], r.randint(1, 2))
            funcs.append({"name": "fn%d" % i, "params": " ".join(pn), "command": "echo " + " ".join("$" + p for p in pn)})
        items.append(("functions", [M(name=f["name"], params=f["params"], command=f["command"]) for f in funcs]))
    steps, prev = [], []
    for i in range(r.randint(1, 4)):
        s = gen_step(r, i, prev, funcs)
        steps.append(s)
        prev.append(dict(s[1])["name"])
    items.append(("steps", steps))
    if r.random() < 0.35:
        hs = r.sample(["exit", "success", "failure", "cancel"], r.randint(1, 3))
        items.append(("handlerOn", M(*[(h, gen_step(r, 9, [], funcs, handler=True)) for h in hs])))
    if r.random() < 0.2:
        items.append(("smtp", M(host="smtp.example", port="25", username="u", password="$VERIF_A")))
    if r.random() < 0.2:
        items.append(("mailOn", M(failure=True, success=False)))
    if r.random() < 0.2:
        items.append(("errorMail", M(**{"from": "a@b", "to": "c@d", "prefix": "[E]", "attachLogs": True})))
    if r.random() < 0.1:
        items.append(("infoMail", M(**{"from": "a@b", "to": "c@d"})))
    for k in ["timeoutSec", "delaySec", "restartWaitSec", "histRetentionDays", "maxActiveRuns", "maxCleanUpTimeSec"]:
        if r.random() < 0.15:
            items.append((k, r.randint(0, 100)))
    if r.random() < 0.3:
        items.append(("preconditions", [gen_cond(r) for _ in range(r.randint(1, 2))]))
    if r.random() < 0.2:
        items.append(("tags", r.choice(["a, B", ["x", 1, "Y"]])))
    r.shuffle(items)
    return M(*items)


# ------------------------------------------------------------------ mutations

def to_mut(t):
    if is_map(t):
        return ["m", [[to_mut(k), to_mut(v)] for k, v in t[1]]]
    if isinstance(t, list):
        return ["l", [to_mut(c) for c in t]]
    return ["v", t]


def from_mut(n):
    if n[0] == "m":
        return ("m", [(from_mut(k), from_mut(v)) for k, v in n[1]])
    if n[0] == "l":
        return [from_mut(c) for c in n[1]]
    return n[1]


def nodes(n, acc, parent=None, idx=None, role=None):
    acc.append((n, parent, idx, role))
    if n[0] == "m":
        for i, (k, v) in enumerate(n[1]):
            nodes(v, acc, n, i, "val")
    elif n[0] == "l":
        for i, c in enumerate(n[1]):
            nodes(c, acc, n, i, "elem")
    return acc


def odd_value(r):
    pools = ODD_COMMANDS + ODD_CRONS + ODD_SIGNALS + ODD_EXPECTED + ODD_ENVKEYS + CRONS + COMMANDS + EXPECTED
    return r.choice([
        ["v", None], ["v", True], ["v", False], ["v", r.randint(-3, 90)], ["v", ("d", r.choice(FLOATS))],
        ["v", r.choice(pools)], ["v", r.choice(pools)], ["l", []], ["m", []], ["l", [["v", None]]],
        ["l", [["m", [[["v", "a"], ["v", 1]]]]]], ["m", [[["v", r.choice([1, True, None])], ["v", "x"]]]],
        ["m", [[["v", r.choice(["foo", "start", "type", "config", "name", "x"])], ["v", r.choice(CRONS + ["x"])]]]],
        ["l", [["v", r.choice(pools)], ["v", r.choice(CRONS)]]],
        ["m", [[["v", "x"], ["l", [["m", [[["v", "k"], ["v", 1]]]]]]]]],
        ["m", [[["v", "x"], ["v", ("d", ".nan")]]]],
        ["m", [[["v", "x"], ["l", [["v", ("d", "1.5")], ["v", ("d", r.choice([".inf", "-.inf", ".nan"]))]]]]]],
    ])


def mutate(r, n):
    """one mutation in place; returns its kind"""
    ns = nodes(n, [])
    kind = r.choice(["confuse", "confuse", "delete", "dup", "nest", "null", "key", "key", "pool"])
    cand = [x for x in ns if x[1] is not None]
    if not cand:
        return "none"
    node, parent, idx, role = r.choice(cand)

    def put(v):
        if role == "val":
            parent[1][idx][1] = v
        else:
            parent[1][idx] = v
    if kind == "confuse":
        put(odd_value(r))
    elif kind == "pool":
        strs = [x for x in cand if x[0][0] == "v" and isinstance(x[0][1], str)]
        if strs:
            node, parent, idx, role = r.choice(strs)
            put(["v", r.choice(ODD_COMMANDS + ODD_CRONS + ODD_SIGNALS + ODD_EXPECTED + ODD_ENVKEYS)])
    elif kind == "delete":
        del parent[1][idx]
    elif kind == "dup":
        e = copy.deepcopy(parent[1][idx])
        if role == "val" and r.random() < 0.5:
            e[1] = odd_value(r)
        parent[1].insert(r.randint(0, len(parent[1])), e)
    elif kind == "nest":
        c = copy.deepcopy(node)
        put(r.choice([["l", [c]], ["m", [[["v", r.choice(["x", "config", "start"])], c]]], ["l", [c, copy.deepcopy(c)]]]))
    elif kind == "null":
        if parent[0] == "l" and r.random() < 0.5:
            parent[1].insert(r.randint(0, len(parent[1])), ["v", None])
        else:
            put(["v", None])
    elif kind == "key":
        maps = [x for x in ns if x[0][0] == "m" and x[0][1]]
        if maps:
            m = r.choice(maps)[0]
            e = r.choice(m[1])
            k = e[0][1] if e[0][0] == "v" else "x"
            e[0] = r.choice([["v", k.upper() if isinstance(k, str) else "K"], ["v", (k[:1].upper() + k[1:]) if isinstance(k, str) and k else "K"],
                             ["v", r.choice(["foo", "bogus", "start", "type", "steps", "name"])], ["v", r.choice([1, True, None, ("d", "1.5")])]])
    return kind


# regression corpus, always run first: the inputs that refuted C13 before the loader fixes (each `w-…` case is a
# former witness; REGRESSION says what the fixed loader must answer), plus shape cases of the decode model
STEP = M(name="s", command="true")
CORPUS = [
    ("valid", M(name="d", schedule="* * * * *", steps=[STEP])),
    ("w-sched-unknown-key", M(schedule=M(foo="* * * * *"), steps=[STEP])),
    ("w-steps-null", M(steps=[None])),
    ("w-preconditions-null", M(preconditions=[None], steps=[STEP])),
    ("w-step-preconditions-null", M(steps=[M(name="s", command="true", preconditions=[None])])),
    ("w-handler-preconditions-null", M(handlerOn=M(exit=M(command="true", preconditions=[None])), steps=[STEP])),
    ("w-functions-null", M(functions=[None], steps=[STEP])),
    ("w-call-nil-function", M(functions=[None, M(name="f", params="x", command="echo $x")],
                              steps=[M(name="s", call=M(function="f", args=M(x=1)))])),
    ("w-tz", M(schedule="TZ=UTC", steps=[STEP])),
    ("w-tz-in-map", M(schedule=M(stop=["CRON_TZ=UTC"]), steps=[STEP])),
    ("w-exec-list-of-maps", M(steps=[M(name="s", command="true", executor=M(type="docker", config=M(x=[M(a=1)])))])),
    ("w-exec-nan", M(steps=[M(name="s", command="true", executor=M(type="docker", config=M(x=("d", ".nan"))))])),
    ("w-bad-regexp", M(preconditions=[M(condition="x", expected="re:[(")], steps=[STEP])),
    ("w-command-empty-list", M(steps=[M(name="s", command=[])])),
    ("w-executor-empty", M(steps=[M(name="s", executor="")])),
    ("w-command-leading-space", M(steps=[M(name="s", command=" echo")])),
    ("w-call-empty-command", M(functions=[M(name="f", params="x", command="$x")], steps=[M(name="s", call=M(function="f", args=M(x="")))])),
    ("w-nonstring-key-step", M(steps=[("m", [("name", "s"), ("command", "true"), (1, "x")])])),
    ("w-nonstring-key-smtp", M(smtp=("m", [(True, "x")]), steps=[STEP])),
    ("w-sched-mixed-order", M(schedule=M(foo="* * * * *", start="bad cron", stop="TZ=UTC"), steps=[STEP])),
    ("case-insensitive", M(NAME="d", Steps=[M(Name="s", COMMAND="true")])),
    ("dup-case", M(name="d", NAME="e", steps=[STEP])),
    ("null-doc", None), ("list-doc", [STEP]), ("scalar-doc", "x"),
    ("call-ok", M(functions=[M(name="f", params="x y", command="echo $x $y")], steps=[M(name="s", call=M(function="f", args=M(x=1, y="b")))])),
    ("handler", M(handlerOn=M(exit=M(command="echo bye"), failure=M(executor="mail")), steps=[STEP])),
    ("env-bad-key", M(env=M(("", "v")), steps=[STEP])),
    ("sched-null-next-to-value", M(schedule=M(start="0 1 * * *", stop=None), steps=[STEP])),
    ("sched-int-next-to-value", M(schedule=M(stop=5, start=["0 1 * * *", "0 2 * * *"], restart=M()), steps=[STEP])),
    ("sched-bool-float-next-to-value", M(schedule=M(restart="0 3 * * *", start=True, stop=("d", "1.5")), steps=[STEP])),
    ("sched-emptylist-next-to-value", M(schedule=M(start="0 1 * * *", stop=[], restart="0 5 * * *"), steps=[STEP])),
    ("sched-all-odd", M(schedule=M(start=None, stop=5, restart=M()), steps=[STEP])),
    ("sched-top-level-int", M(schedule=5, steps=[STEP])),
    ("sched-list-nonstring", M(schedule=["0 1 * * *", 5], steps=[STEP])),
    ("sched-map-list-nonstring", M(schedule=M(start=["0 1 * * *", None]), steps=[STEP])),
    ("sig-canonical", M(steps=[M(name="s", command="true", signalOnStop="SIGINT")], handlerOn=M(exit=M(command="true", signalOnStop="SIGUSR1")))),
    ("sig-lower", M(steps=[M(name="s", command="true", signalOnStop="sigint")])),
    ("sig-noprefix", M(steps=[M(name="s", command="true", signalOnStop="INT")])),
    ("sig-noprefix-lower-handler", M(steps=[STEP], handlerOn=M(cancel=M(command="true", signalOnStop="usr1")))),
    ("sig-blanks", M(steps=[M(name="s", command="true", signalOnStop=" SIGTERM ")])),
    ("sig-numeric", M(steps=[M(name="s", command="true", signalOnStop="9")])),
    ("sig-empty", M(steps=[M(name="s", command="true", signalOnStop="")])),
    ("env-nonstring-key", M(env=("m", [(1, "v")]), steps=[STEP])),
]


# former witnesses -> required answer of every entry point that builds steps ("err"), or accepted in a sound state
REGRESSION = {n: "err" for n in [
    "w-sched-unknown-key", "w-steps-null", "w-preconditions-null", "w-step-preconditions-null", "w-handler-preconditions-null",
    "w-functions-null", "w-call-nil-function", "w-tz", "w-tz-in-map", "w-exec-nan", "w-command-empty-list", "w-executor-empty",
    "w-command-leading-space", "w-call-empty-command", "w-nonstring-key-step", "w-nonstring-key-smtp", "w-sched-mixed-order"]}
STEP_LEVEL = {"w-exec-nan", "w-command-empty-list", "w-executor-empty", "w-command-leading-space", "w-call-empty-command"}
REGRESSION.update({"w-exec-list-of-maps": "ok-serialisable", "w-bad-regexp": "ok-evalsafe"})


# ------------------------------------------------------------------ canonical forms

def hexs(h):
    return h if h else "-"


def step_str(s):
    return "%s:%d:%d:%s" % (hexs(s["name"]), s["hasExec"], s["sigOK"], hexs(s["type"]))


def impl_str(res):
    if res["cls"] == "err":
        return "err"
    if res["cls"] == "panic":
        return "panic:" + res.get("site", "?")
    f = res["facts"]
    hs = f.get("handlers") or {}
    ev = f.get("evalConds", "ok")
    sch = f.get("scheds") or [[], [], []]
    return "ok;n=%s;sc=%s/%s/%s;st=%s;h=%s;ser=%d;ev=%d" % (
        hexs(f["name"]), ",".join(hexs(x) for x in sch[0]), ",".join(hexs(x) for x in sch[1]), ",".join(hexs(x) for x in sch[2]),
        ",".join(step_str(s) for s in (f.get("steps") or [])),
        ",".join(step_str(hs[k]) if k in hs else "-" for k in ["exit", "success", "failure", "cancel"]),
        f.get("json") == "ok", ev == "ok")


def monitor(chk, cid, entry, res, replay_case, dist):
    """the property itself, on the implementation's answer (independent of the Lean model)"""
    if res.get("timeout"):
        chk.violation("C13:load-does-not-terminate", "loading did not terminate within 20 s", replay_case); return
    cls = res["cls"]
    dist[cls] = dist.get(cls, 0) + 1
    if cls == "panic":
        chk.violation("C13:panic:" + res.get("site", "?"),
                      "%s crashed the calling process (%s in %s)" % (entry, res.get("err", "")[:120], res.get("site", "?")), replay_case)
        return
    if cls != "ok":
        return
    f = res["facts"]
    hs = f.get("handlers") or {}
    for s in (f.get("steps") or []) + [hs[k] for k in sorted(hs)]:
        if not s["name"]:
            chk.violation("C13:accepted-step-without-name", "accepted DAG has a step without a name", replay_case)
        if not s["hasExec"]:
            chk.violation("C13:accepted-step-with-nothing-to-execute",
                          "accepted DAG has a step with no command, executor type or sub-workflow", replay_case)
        if not s["sigOK"]:
            # the stop path (scheduler.Node.signal) calls unix.SignalNum on the STORED spelling and sends the result
            try:
                stored = bytes.fromhex(s.get("signal", "")).decode("utf-8", "replace")
            except ValueError:
                stored = "?"
            chk.violation("C13:accepted-signal-name-the-stop-path-cannot-resolve",
                          "accepted DAG stores signalOnStop %r, which unix.SignalNum (the call the stop path uses) resolves to %s: "
                          "a stop would deliver no signal to that step" % (stored, s.get("stopSigNum", 0)), replay_case)
    if not f.get("cronOK", True):
        chk.violation("C13:accepted-unparseable-schedule", "accepted DAG carries a schedule robfig/cron cannot parse", replay_case)
    js = f.get("json", "ok")
    if js != "ok":
        kind = "map-inside-list" if "map[interface {}]interface {}" in js else ("non-finite-float" if "unsupported value" in js else "other")
        chk.violation("C13:status-not-serialisable:" + kind, "status of the accepted DAG cannot be recorded/served: " + js[:120], replay_case)
    ev = f.get("evalConds", "ok")
    if ev != "ok":
        chk.violation("C13:precondition-evaluation-" + ev.replace(":", "-in-"), "evaluating an accepted precondition crashes: " + ev, replay_case)


def has_schedule_map(t):
    if not is_map(t):
        return False
    for k, v in t[1]:
        if isinstance(k, str) and k.lower() == "schedule" and is_map(v) and len(v[1]) >= 2:
            return True
    return False


def signal_values(t, acc=None):
    """the signalOnStop strings of a tree (any depth: steps and handlers)"""
    acc = set() if acc is None else acc
    if is_map(t):
        for k, v in t[1]:
            if isinstance(k, str) and k.lower() == "signalonstop" and isinstance(v, str):
                acc.add(v)
            signal_values(v, acc)
    elif isinstance(t, list):
        for c in t:
            signal_values(c, acc)
    return acc


def mutate_text(r, txt):
    b = bytearray(txt.encode("utf-8"))
    for _ in range(r.randint(1, 4)):
        k = r.random()
        if not b:
            break
        i = r.randrange(len(b))
        if k < 0.2:
            b[i] = r.randrange(256)
        elif k < 0.4:
            j = min(len(b), i + r.randint(1, 12)); del b[i:j]
        elif k < 0.55:
            j = min(len(b), i + r.randint(1, 20)); b[i:i] = b[i:j]
        elif k < 0.85:
            tok = r.choice([b"&a ", b"*a", b"<<: ", b"!!binary ", b"? ", b"\t", b"\n---\n", b"%YAML 1.1\n", b"!!str ", b"!!int ",
                            b"[", b"]", b"{", b"}", b": ", b"- ", b"\n", b"null", b"~", b"!!float ", b"0x1F", b"1e999", b"|\n  ", b">\n ",
                            b"&a [*a]", b"'", b"\"", b"#", b"\x00", b"\xff\xfe", b"!<tag:x> ", b"!!map ", b"!!seq ", b"!!timestamp 2001-01-01",
                            b"!!set ", b"2001-12-14t21:59:43.10-05:00", b"<<: *a", b"yes", b"0o7", b"1_000", b".NaN", b"-.INF"])
            b[i:i] = tok
        else:
            del b[i:]
    return bytes(b)


def daemon_survives_stream(chk):
    """'... never crashes the calling process (server, scheduler DAEMON or CLI)': the scheduler daemon's entry reader loads
    definitions at start-up and whenever the watcher sees a file created / written. Daemon simulations of the C09 stream
    with invalid, unloadable and changing files (real entryReader, real watcher) are run here for C13's clause: a file the
    loader rejects - or anything else in the DAGs directory - must not bring the daemon's tick down."""
    import p_c09
    binp, out = common.build_harness("cron")
    if not binp:
        chk.oblige("harness-build:cron", False, out[-2000:]); return
    rng = chk.rng
    cases = [c for c in p_c09.corpus() if c.get("k") == "sim" and c.get("flavour") != "corpus-last"][:12]
    flav = ["invalid"] * 3 + ["events"] * 3 + ["mixed"] * 2
    for i in range(24 if chk.tier == "quick" else 240):
        cases.append(p_c09.gen_sim(rng, "v%d" % i, flav[i % len(flav)]))
    try:
        rc, hlines, herr = p_c09.run_harness(binp, cases)
    except p_c09.HarnessHang:
        chk.oblige("harness-run:cron (daemon stream for C13)", False, "the daemon harness did not come back"); return
    houts = p_c09.split_outputs(cases, [l.replace(" !drain-timeout", "") for l in hlines])

    class Proxy:
        """routes the daemon monitor's crash verdicts to C13; everything else is C09's business"""
        def __init__(self, chk): self.chk = chk; self.nontrivial = chk.nontrivial
        def violation(self, sig, what, rep):
            if "crash" in sig or "dies" in sig or "dead" in sig or "panic" in sig:
                self.chk.violation("C13:scheduler-daemon-brought-down-by-a-definition:" + sig.split(":", 1)[1], what, {"daemon_case": rep})
        def oblige(self, *a, **k): pass
    px = Proxy(chk)
    counters = {k: 0 for k in ("sim_ticks", "dag_ticks", "dead", "start_calls", "stop_calls", "restart_calls", "start_schedule_matches",
                               "match_but_suspended", "match_but_running", "match_but_started_same_minute", "match_but_started_later",
                               "match_and_due", "stop_schedule_matches", "restart_schedule_matches")}
    n = 0
    for c, ho in zip(cases, houts):
        try:
            p_c09.monitor_sim(px, c, ho, counters); n += 1; chk.evaluations += 1
        except (ValueError, IndexError, KeyError):
            pass
    chk.stats = dict(getattr(chk, "stats", None) or {}, daemon_runs=n)


def run(chk, replay):
    if replay and "daemon_case" in json.load(open(replay)).get("case", {}):
        daemon_survives_stream(chk); return
    chk.trusted = common.TRUSTED_COMMON + [
        "gopkg.in/yaml.v2 (the model starts at the untyped tree; duplicate keys: last wins) and the harness's YAML emitter",
        "mapstructure's decode of the `definition` shape is modelled (BdModel/Load/Decode.lean) and validated differentially",
        "robfig/cron validity, regexp.Compile, unix.SignalNum enter the model as per-string facts reported by the harness (Orc)"]
    chk.assumptions = ["generated definitions contain no command substitutions, so the evaluating entry point executes nothing",
                       "map keys are scalars; struct keys are ASCII (strings.EqualFold special cases U+212A, U+017F not generated)",
                       "base configuration empty (Load is driven with base = \"\")",
                       "raw-bytes stream: back-ticks are neutralised before loading (defence in depth: should the logDir guard of 37ddbbb "
                       "regress, arbitrary text must still not reach a shell; C19 plants its own canaries)"]
    common.lean_obligations(chk, "BdModel/Props/C13.lean", TIE)
    binp, out = common.build_harness("load")
    if not binp:
        chk.oblige("harness-build:load", False, out[-3000:]); return
    chk.oblige("harness-build:load", True)
    r = chk.rng
    cases = []          # (id, kind, tree)
    if replay:
        c = json.load(open(replay))["case"]
        if c.get("mode") == "raw":
            raw_only = [c]
        else:
            raw_only = []
            cases = [(c["id"], "replay", None, c)]
    else:
        raw_only = None
        for name, t in CORPUS:
            cases.append((name, "corpus", t, None))
        n = 500 if chk.tier == "quick" else 5000
        for i in range(n):
            t = to_mut(gen_def(r))
            kinds = []
            for _ in range(r.choice([0, 1, 1, 1, 2, 2, 3])):
                kinds.append(mutate(r, t))
            cases.append(("g%d" % i, "+".join(kinds) or "valid", from_mut(t), None))
        # Go visits the keys of a schedule map in an order that is random per load: every definition with a schedule map of
        # two or more keys is loaded 8 times, and each load is compared with the model
        for cid, kind, t, raw in list(cases):
            if has_schedule_map(t):
                for k in range(1, 8):
                    cases.append(("%s#%d" % (cid, k), "reload", t, None))
    lines = []
    for cid, kind, t, raw in cases:
        lines.append(raw if raw is not None else {"id": cid, "mode": "tree", "tree": enc(t), "eval": True})
    results = {}
    if lines:
        p = subprocess.run([binp], input="\n".join(json.dumps(l) for l in lines) + "\n", stdout=subprocess.PIPE,
                           stderr=subprocess.PIPE, text=True, timeout=3000)
        if p.returncode != 0:
            chk.oblige("harness-run:load", False, p.stderr[-2000:]); return
        for l in p.stdout.splitlines():
            o = json.loads(l)
            results[o["id"]] = o
    # ---- driver on the same trees, with the harness's per-string facts as oracle
    dlines = []
    for l in lines:
        o = results.get(l["id"])
        if o is None or "res" not in o:
            chk.oblige("harness-answer:" + str(l["id"]), False, json.dumps(o)[:500]); continue
        orc = " ".join("%s:%d%d%d" % (h or "-", v[0], v[1], v[2]) for h, v in sorted(o["oracle"].items()))
        dlines.append("%s o%d %s %s" % (l["id"], len(o["oracle"]), orc, l["tree"]))
    model = {}
    if dlines:
        rc, dout, derr = common.run_driver("load", "\n".join(dlines) + "\n", timeout=3000)
        if rc != 0:
            chk.oblige("driver-run:load", False, derr[-2000:]); return
        for l in dout.splitlines():
            parts = l.split("|")
            model[parts[0]] = dict(p.split("=", 1) for p in parts[1:] if "=" in p)
    dist, kinds_seen, dis = {}, {}, 0
    sig_stats = {"accepted_canonical": 0, "accepted_other": 0, "distinct_spellings_planted": 0}
    planted_sigs = set()
    for l in lines:
        cid = l["id"]
        o = results.get(cid)
        if o is None or "res" not in o:
            continue
        for e in ENTRIES:
            res = o["res"].get(e)
            if res is None:
                continue
            chk.evaluations += 1
            monitor(chk, cid, e, res, l, dist)
            got = impl_str(res)
            want = (model.get(cid, {}).get(e) or "?").split("~")
            if got not in want:
                dis += 1; chk.disagreements += 1
                if dis <= 3:
                    chk.oblige("correspondence:load:%s:%s" % (cid, e), False,
                               "impl=%s model=%s yaml=%s" % (got, want, o.get("yaml", "")[:600]))
        chk.nontrivial.add(l["tree"])
        ly = o["res"].get("LoadYAML") or {}
        if ly.get("cls") == "ok":
            fs = ly["facts"]
            for st in (fs.get("steps") or []) + list((fs.get("handlers") or {}).values()):
                if st.get("signal"):
                    sig_stats["accepted_canonical" if st["sigOK"] else "accepted_other"] += 1
    for cid, kind, t, raw in cases:
        for k in kind.split("+"):
            kinds_seen[k] = kinds_seen.get(k, 0) + 1
    # ---- regression: the former witnesses are rejected with an error (or accepted in a sound state) by EVERY entry point
    if not replay:
        regress_bad = []
        for name, want in sorted(REGRESSION.items()):
            o = results.get(name)
            if o is None or "res" not in o:
                regress_bad.append(name + ": no answer"); continue
            for e in ENTRIES:
                res = o["res"][e]
                f = res.get("facts") or {}
                if want == "err":
                    # listing (LoadMetadata) does not build steps: step-level shapes may be accepted there, but never panic
                    good = res["cls"] == "err" or (e == "LoadMetadata" and name in STEP_LEVEL and res["cls"] == "ok")
                elif want == "ok-serialisable":
                    good = res["cls"] == "ok" and f.get("json") == "ok"
                else:
                    good = res["cls"] == "ok" and f.get("evalConds", "ok") == "ok"
                if not good:
                    regress_bad.append("%s/%s: %s" % (name, e, impl_str(res)[:80]))
        chk.oblige("regression: the %d former witnesses are rejected with an error / accepted in a sound state" % len(REGRESSION),
                   not regress_bad, "; ".join(regress_bad)[:1500])
        daemon_survives_stream(chk)
    chk.disagreements_checked = chk.disagreements
    if lines and dis == 0:
        chk.oblige("correspondence:load (outcome class, panic site and DAG facts: impl = model on every tree and entry point)", True)
    # ---- raw-bytes stream: Go only
    raw_cases = raw_only
    if raw_cases is None:
        raw_cases = []
        yamls = [o["yaml"] for o in results.values() if "yaml" in o]
        nraw = 400 if chk.tier == "quick" else 4000
        for i in range(nraw):
            if i % 4 == 0 or not yamls:
                data = bytes(r.randrange(256) for _ in range(r.randint(0, 200)))
            elif i % 4 == 1:
                data = bytes(r.choice(b" \n\t:-[]{}&*!|>'\"%@`#,?abcxyz019~.") for _ in range(r.randint(1, 120)))
            else:
                data = mutate_text(r, r.choice(yamls))
            raw_cases.append({"id": "r%d" % i, "mode": "raw", "hex": data.hex()})
    if raw_cases:
        p = subprocess.run([binp], input="\n".join(json.dumps(l) for l in raw_cases) + "\n", stdout=subprocess.PIPE,
                           stderr=subprocess.PIPE, text=True, timeout=3000)
        if p.returncode != 0:
            chk.oblige("harness-run:load-raw", False, p.stderr[-2000:]); return
        outs = [json.loads(l) for l in p.stdout.splitlines()]
        chk.oblige("harness-run:load-raw (every case answered)", len(outs) == len(raw_cases), "%d/%d" % (len(outs), len(raw_cases)))
        rdist = {}
        for c, o in zip(raw_cases, outs):
            if o.get("timeout"):
                monitor(chk, c["id"], "raw", o, c, rdist); continue
            for e, res in o["res"].items():
                chk.evaluations += 1
                monitor(chk, c["id"], e, res, c, rdist)
        chk.stats["raw_outcomes"] = rdist
    for cid, kind, t, raw in cases:
        if t is not None:
            planted_sigs |= signal_values(t)
    sig_stats["distinct_spellings_planted"] = len(planted_sigs)
    chk.stats.update({"signals": sig_stats, "tree_outcomes": dist, "mutation_kinds": kinds_seen, "tree_cases": len(lines), "raw_cases": len(raw_cases or [])})
    chk.rule = ("grammar of valid definitions (schedule string/list/map, env map/list, params, functions+call, run, executor string/map with nested "
                "config, handlers, preconditions, mail/smtp, policies) with 0-3 mutations (type confusion, deletion, duplication, nesting, nulls, "
                "key case/unknown/non-string keys, odd strings: TZ= prefixes, bad cron, bad regexp, empty/space commands; signalOnStop of steps and handlers "
                "in canonical SIGxxx for 12 signals and in lower / mixed case, without the SIG prefix, numeric, with surrounding blanks, garbage, empty; "
                "schedule maps with null / wrong-typed / empty-list values next to valued keys, each such definition loaded 8 times (random map "
                "order) with the start / stop / restart expression LISTS compared) through "
                "LoadYAML, LoadMetadata, LoadWithoutEval, Load; plus the corpus of theorem witnesses; plus a raw stream (random bytes, YAML "
                "punctuation soup, byte/span/tag mutations of rendered definitions) through the non-evaluating entries; non-trivial = distinct trees")
    chk.samples = [{"id": l["id"], "yaml": results[l["id"]].get("yaml", "")[:300],
                    "impl": {e: impl_str(v)[:120] for e, v in results[l["id"]]["res"].items()}}
                   for l in lines[:1] + lines[len(lines) // 2: len(lines) // 2 + 2] if l["id"] in results and "res" in results[l["id"]]]
