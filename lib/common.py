"""Shared machinery of the checks: extraction, Lean obligations, harness builds, triage, evidence."""
import fcntl, hashlib, json, os, re, shutil, subprocess, sys, time, random

ROOT = os.path.dirname(os.path.dirname(os.path.abspath(__file__)))
REPO = os.environ.get("VERIF_REPO", "/repo")
BUILD = os.path.join(ROOT, "build")
LEAN = os.path.join(ROOT, "lean")
BIN = os.path.join(BUILD, "bin")
ALLOWED_AXIOMS = {"propext", "Classical.choice", "Quot.sound"}
FORBIDDEN = re.compile(r"\bsorry\b|\badmit\b|^\s*axiom\s|native_decide|bv_decide|implemented_by|\bunsafe\s|maxHeartbeats\s+0\b", re.M)

GOENV = dict(os.environ, GOFLAGS="-mod=mod", GOPROXY="off", GOSUMDB="off", GOTOOLCHAIN="local",
             CGO_ENABLED=os.environ.get("CGO_ENABLED", "0"))


def log(*a):
    print(*a, file=sys.stderr, flush=True)


def sh(cmd, cwd=None, env=None, timeout=3600, inp=None):
    p = subprocess.run(cmd, cwd=cwd, env=env, input=inp, stdout=subprocess.PIPE, stderr=subprocess.STDOUT,
                       timeout=timeout, text=True, shell=isinstance(cmd, str))
    return p.returncode, p.stdout


class Lock:
    def __init__(self, name):
        os.makedirs(BUILD, exist_ok=True)
        self.path = os.path.join(BUILD, name + ".lock")

    def __enter__(self):
        self.f = open(self.path, "w")
        fcntl.flock(self.f, fcntl.LOCK_EX)
        return self

    def __exit__(self, *a):
        fcntl.flock(self.f, fcntl.LOCK_UN)
        self.f.close()


# ------------------------------------------------------------------ extraction

def build_extractor():
    with Lock("extract-build"):
        src = os.path.join(ROOT, "go", "extract")
        out = os.path.join(BIN, "extract")
        newest = max(os.path.getmtime(os.path.join(src, f)) for f in os.listdir(src))
        if os.path.exists(out) and os.path.getmtime(out) >= newest:
            return out
        os.makedirs(BIN, exist_ok=True)
        rc, o = sh(["go", "build", "-o", out, "."], cwd=src, env=GOENV)
        if rc != 0:
            raise RuntimeError("extractor build failed:\n" + o)
        return out


def run_extract():
    """Re-read /repo's anchored functions; regenerate lean/BdModel/Extracted/*.lean (only rewritten when changed)."""
    exe = build_extractor()
    with Lock("extract-run"):
        outj = os.path.join(BUILD, "extracted.json")
        rc, o = sh([exe, REPO, os.path.join(ROOT, "go", "extract", "anchors.json"), outj,
                    os.path.join(LEAN, "BdModel", "Extracted")])
        if rc != 0:
            raise RuntimeError("extractor failed:\n" + o)
        return json.load(open(outj))


def canon_json():
    p = os.path.join(ROOT, "canon", "extracted.json")
    return json.load(open(p)) if os.path.exists(p) else {"funcs": {}, "tables": {}}


def lean_ident(s):
    return re.sub(r"[.\-/ ]", "_", s)


# ------------------------------------------------------------------ Lean

def lake(targets, timeout=3000):
    with Lock("lake"):
        return sh(["lake", "build"] + targets, cwd=LEAN, timeout=timeout)


def lean_file(rel, timeout=1200):
    """elaborate one file against the built library; returns (rc, output)"""
    return sh(["lake", "env", "lean", rel], cwd=LEAN, timeout=timeout)


AX_RE = re.compile(r"'([^']+)' depends on axioms: \[([^\]]*)\]")
NOAX_RE = re.compile(r"'([^']+)' does not depend on any axioms")
ERR_RE = re.compile(r"^(\S+?):(\d+):(\d+): error", re.M)


def parse_axioms(out):
    res = {}
    for m in AX_RE.finditer(out.replace("\n  ", " ").replace("\n", " ")):
        res[m.group(1)] = [a.strip() for a in m.group(2).split(",") if a.strip()]
    for m in NOAX_RE.finditer(out):
        res[m.group(1)] = []
    return res


def theorem_at_line(path, line):
    """name of the declaration that contains a line (last `theorem`/`example` at or above it)"""
    name = None
    for i, l in enumerate(open(path), 1):
        m = re.match(r"\s*(?:private\s+)?(?:theorem|lemma|def|example)\s*([\w.']*)", l)
        if m:
            cand = m.group(1) or "example@%d" % i
            if i <= line:
                name = cand
        if i > line:
            break
    return name or "?"


def import_closure(rel):
    """project-local transitive imports of a Lean file (relative to /verif/lean)"""
    seen, todo = set(), [rel]
    while todo:
        r = todo.pop()
        if r in seen or not os.path.exists(os.path.join(LEAN, r)):
            continue
        seen.add(r)
        for m in re.finditer(r"^import\s+((?:BdModel|Driver)[\w.]*)", open(os.path.join(LEAN, r)).read(), re.M):
            todo.append(m.group(1).replace(".", "/") + ".lean")
    return sorted(seen)


def audit_sources(rels):
    """grep the Lean sources a property depends on for escape hatches (outside comments)"""
    bad = []
    for rel in rels:
        p = os.path.join(LEAN, rel)
        txt = open(p).read()
        txt = re.sub(r"/-.*?-/", "", txt, flags=re.S)
        txt = re.sub(r"--.*", "", txt)
        for m in FORBIDDEN.finditer(txt):
            bad.append("%s: %s" % (rel, m.group(0).strip()))
    return bad


# ------------------------------------------------------------------ harness builds

HARNESS_FILES = {
    "hist": {
        "internal/persistence/jsondb/zz_verif_hooks.go": "go/hooks/jsondb_hooks_verif.go",
    },
    "sched": {
        "internal/dag/scheduler/zz_verif_hooks.go": "go/hooks/dagscheduler_hooks_verif.go",
    },
    "cron": {
        "internal/scheduler/zz_verif_hooks.go": "go/hooks/scheduler_hooks_verif.go",
    },
    "params": {
        "internal/dag/zz_verif_hooks.go": "go/hooks/dag_params_hooks_verif.go",
        "cmd/zz_verif_hooks.go": "go/hooks/cmd_hooks_verif.go",
        "internal/client/zz_verif_hooks.go": "go/hooks/client_hooks_verif.go",
    },
    "log": {
        "internal/dag/scheduler/zz_verif_hooks.go": "go/hooks/dagscheduler_hooks_verif.go",
    },
    "stamp": {
        "internal/persistence/jsondb/zz_verif_stamp_hooks.go": "go/hooks/jsondb_stamp_hooks_verif.go",
    },
    "cache": {
        "internal/persistence/filecache/zz_verif_hooks.go": "go/hooks/filecache_hooks_verif.go",
    },
    "execs": {
        "internal/dag/scheduler/zz_verif_hooks.go": "go/hooks/dagscheduler_hooks_verif.go",
    },
    "retrycmd": {
        "cmd/zz_verif_hooks.go": "go/hooks/cmd_hooks_verif.go",
    },
}


_TO_REMOVE = []


def _cleanup_at_exit(path):
    import atexit
    if not _TO_REMOVE:
        def _rm():
            for q in _TO_REMOVE:
                try: os.remove(q)
                except OSError: pass
        atexit.register(_rm)
    _TO_REMOVE.append(path)


def _sweep_stale_binaries():
    """binaries left by checks that were killed: <name>.<pid> whose process is gone"""
    try:
        for f in os.listdir(BIN):
            m = re.match(r".*\.(\d+)$", f)
            if m and not os.path.exists("/proc/" + m.group(1)):
                try: os.remove(os.path.join(BIN, f))
                except OSError: pass
    except OSError:
        pass


def build_harness(area, extra_overlay=None):
    """compile /verif/go/harness/<area> INTO the blackdagger module (overlay), from /repo's current tree"""
    with Lock("harness-" + area):
        _sweep_stale_binaries()
        repl = {}
        hdir = os.path.join(ROOT, "go", "harness", area)
        for f in sorted(os.listdir(hdir)):
            if f.endswith(".go"):
                repl[os.path.join(REPO, "internal", "zzverif", area, f)] = os.path.join(hdir, f)
        for k, v in HARNESS_FILES.get(area, {}).items():
            repl[os.path.join(REPO, k)] = os.path.join(ROOT, v)
        for k, v in (extra_overlay or {}).items():
            repl[os.path.join(REPO, k)] = os.path.join(ROOT, v)
        os.makedirs(BIN, exist_ok=True)
        ov = os.path.join(BUILD, "overlay-%s.json" % area)
        json.dump({"Replace": repl}, open(ov, "w"), indent=1)
        out = os.path.join(BIN, area + ".new.%d" % os.getpid())
        rc, o = sh(["go", "build", "-tags", "verif", "-overlay", ov, "-o", out, "./internal/zzverif/" + area],
                   cwd=REPO, env=GOENV, timeout=1200)
        if rc != 0:
            return None, o
        # the binary is private to this process (another check may be running against another tree)
        final = os.path.join(BIN, "%s.%d" % (area, os.getpid()))
        os.replace(out, final)
        _cleanup_at_exit(final)
        return final, o


def build_real_binary():
    with Lock("realbin"):
        os.makedirs(BIN, exist_ok=True)
        out = os.path.join(BIN, "blackdagger.%d" % os.getpid())
        rc, o = sh(["go", "build", "-o", out + ".new", "."], cwd=REPO, env=GOENV, timeout=1200)
        if rc != 0:
            return None, o
        os.replace(out + ".new", out)
        _cleanup_at_exit(out)
        return out, o


def driver_path():
    return os.path.join(LEAN, ".lake", "build", "bin", "driver")


def run_driver(mode, text, timeout=600):
    p = subprocess.run([driver_path(), mode], input=text, stdout=subprocess.PIPE, stderr=subprocess.PIPE,
                       text=True, timeout=timeout)
    return p.returncode, p.stdout, p.stderr


# ------------------------------------------------------------------ check context

class Check:
    def __init__(self, prop, tier, seed):
        self.prop, self.tier, self.seed = prop, tier, seed
        self.t0 = time.time()
        self.obligations = []      # (name, ok, detail)
        self.violations = []       # dict(signature, what, replay)
        self.known_hits = []
        self.evaluations = 0
        self.nontrivial = set()
        self.samples = []
        self.disagreements = 0
        self.disagreements_checked = 0
        self.stats = {}
        self.rule = ""
        self.assumptions = []
        self.trusted = []
        self.checker_cmd = ""
        self.exhaustive = False
        self.rng = random.Random(seed * 1000003 + int(hashlib.md5(prop.encode()).hexdigest()[:6], 16))
        kf = os.path.join(ROOT, "known_findings.json")
        self.known = json.load(open(kf)) if os.path.exists(kf) else []

    # ---- obligations
    def oblige(self, name, ok, detail=""):
        self.obligations.append((name, bool(ok), detail))
        if not ok:
            log("[%s] OBLIGATION BROKEN: %s %s" % (self.prop, name, detail[:2000]))

    def broken(self):
        return [(n, d) for (n, ok, d) in self.obligations if not ok]

    # ---- violations
    def violation(self, signature, what, replay):
        """a concrete failing input on the implementation (or a model witness replayed on it)"""
        for k in self.known:
            if k.get("property") == self.prop and k.get("status") == "open" and re.fullmatch(k["signature"], signature):
                if k["signature"] not in [h["signature"] for h in self.known_hits]:
                    self.known_hits.append(k)
                return
        if any(v["signature"] == signature for v in self.violations):
            return
        self.violations.append({"signature": signature, "what": what, "replay": replay})

    def write_replay(self, obj, tag):
        d = os.path.join(ROOT, "replays")
        os.makedirs(d, exist_ok=True)
        h = hashlib.md5(json.dumps(obj, sort_keys=True).encode()).hexdigest()[:10]
        p = os.path.join(d, "%s-%s-%s.json" % (self.prop, tag, h))
        json.dump(obj, open(p, "w"), indent=1)
        return p

    def finish(self):
        wall = time.time() - self.t0
        lines = []
        for k in self.known_hits:
            lines.append("KNOWN-FINDING: property=%s %s" % (self.prop, k["what"]))
        rc = 0
        for v in self.violations:
            p = self.write_replay({"kind": "impl-failure", "property": self.prop, "seed": self.seed,
                                   "signature": v["signature"], "what": v["what"], "case": v["replay"]}, "viol")
            lines.append("VIOLATION property=%s replay=%s" % (self.prop, p))
            rc = 1
        br = self.broken()
        if br and not self.violations:
            p = self.write_replay({"kind": "broken-obligation", "property": self.prop, "seed": self.seed,
                                   "broken": [{"obligation": n, "detail": d[:4000]} for n, d in br],
                                   "note": "the theorem / correspondence named here no longer checks against /repo's current "
                                           "source; the search over the model and the implementation found no concrete failing input"},
                                  "obl")
            lines.append("VIOLATION property=%s replay=%s no-failing-input-found" % (self.prop, p))
            rc = 1
        n_obl = len(self.obligations)
        n_ok = sum(1 for o in self.obligations if o[1])
        ev = {
            "property_id": self.prop, "tier": self.tier, "seed": self.seed, "level": "proof",
            "coverage": {
                "obligations": n_obl, "discharged": n_ok,
                "checker_cmd": self.checker_cmd or "lake build + lake env lean (Lean 4.33.0 kernel); see obligations_list",
                "trusted_base": self.trusted,
                "obligations_list": [{"name": n, "ok": ok} for (n, ok, _) in self.obligations],
                "evaluations": self.evaluations, "distinct_nontrivial": len(self.nontrivial),
                "rule": self.rule, "samples": self.samples[:8],
                "disagreements": self.disagreements, "disagreements_checked": self.disagreements_checked,
                "exhaustive": self.exhaustive, "stats": self.stats,
                "known_findings_hit": [k["signature"] for k in self.known_hits],
            },
            "assumptions": self.assumptions, "wall_s": round(wall, 2),
            "violations": len(self.violations) + (1 if br and not self.violations else 0),
        }
        # evidence/ holds what the checks found on /repo itself; a run against another tree (VERIF_REPO = a scratch
        # worktree with a seeded change) or a replay must not overwrite it
        edir = os.path.join(ROOT, "evidence")
        if os.path.realpath(REPO) != "/repo" or getattr(self, "is_replay", False):
            edir = os.path.join(BUILD, "evidence-other-tree")
        os.makedirs(edir, exist_ok=True)
        json.dump(ev, open(os.path.join(edir, self.prop + ".json"), "w"), indent=1)
        for l in lines:
            print(l, flush=True)
        log("[%s] tier=%s seed=%d obligations %d/%d evaluations=%d nontrivial=%d wall=%.1fs rc=%d" %
            (self.prop, self.tier, self.seed, n_ok, n_obl, self.evaluations, len(self.nontrivial), wall, rc))
        return rc


TRUSTED_COMMON = [
    "Lean 4.33.0 kernel (thorough tier: re-checked by leanchecker)",
    "axioms: only propext, Classical.choice, Quot.sound (audited from #print axioms on every run); no native_decide / bv_decide / sorry",
    "the go/ast extractor (/verif/go/extract) and the canonical tables in lean/BdModel/Canon (tie by `decide`)",
    "the correspondence harness (/verif/go/harness, compiled into the module by -overlay) and its canonicalisation",
]


REST_AREAS = {
    # the other executors (docker, http, jq, mail, ssh, sub-workflow): what a step "executes", how it is killed, where its output goes
    "ExecRest": {"C01", "C02", "C03", "C04", "C05", "C10", "C11", "C12", "C15"},
    # reporter / mailer / logger / config resolver / constants: what is reported after a run, where logs are opened
    "Report": {"C%02d" % i for i in range(1, 21)},   # (round 6: the config resolver decides which base configuration every command loads)
    # the daemon's file watcher (new / changed / removed DAG files reach the entry reader through it)
    "Notify": {"C09", "C13"},
    # the go-swagger generated server, parameter binding / validation, models, routes: every API request passes through it
    "ApiGen": {"C17", "C18", "C20"},
}


def lean_obligations(chk, props_rel, tie=None, extra_targets=None, extra_props=None):
    """Everything on the Lean side for one property:
       props_rel : e.g. 'BdModel/Props/C14.lean' (ends with #print axioms lines)
       tie       : {Area: [names of tie theorems this property depends on]}"""
    tie = dict(tie or {})
    # the assembly path every property's end-to-end behaviour goes through (command line -> loader -> agent -> client ->
    # stores / sockets / server wiring): one skeleton per file, tied by every check
    if os.path.exists(os.path.join(LEAN, "BdModel", "Tie", "Glue.lean")):
        tie.setdefault("Glue", None)
    # files no model area covers, tied (one skeleton per file) to the properties whose behaviour can pass through them
    for area, props in REST_AREAS.items():
        if chk.prop in props and os.path.exists(os.path.join(LEAN, "BdModel", "Tie", area + ".lean")):
            tie.setdefault(area, None)
    # the history store is read or written on the way of every property that reports, retries, guards or cleans up
    # (round 6: C04, C12 were blind to it): at least its skeletons are tied by every check
    if os.path.exists(os.path.join(LEAN, "BdModel", "Tie", "Hist.lean")):
        tie.setdefault("Hist", None)
    # one check at a time between the extraction from ITS tree and the elaboration of the ties against it
    with Lock("lean-phase"):
        return _lean_obligations(chk, props_rel, tie, extra_targets, extra_props or [])


def _lean_obligations(chk, props_rel, tie, extra_targets, extra_props=()):
    try:
        ex = run_extract()
    except Exception as e:
        chk.oblige("extract", False, str(e))
        ex = {"funcs": {}, "tables": {}, "errors": [str(e)]}
    for e in ex.get("errors") or []:
        chk.oblige("extract:" + e, False, e)
    mod = props_rel[:-5].replace("/", ".")
    xmods = [x[:-5].replace("/", ".") for x in extra_props]
    targets = [mod, "driver"] + xmods + ["BdModel.Extracted.%s" % a for a in tie] + ["BdModel.Canon.%s" % a for a in tie] + (extra_targets or [])
    rc, out = lake(targets)
    if rc != 0:
        # find which file failed
        errs = ERR_RE.findall(out)
        names = sorted({"%s:%s" % (f, theorem_at_line(os.path.join(LEAN, f), int(l))) for f, l, _ in errs}) or ["lake build"]
        for n in names:
            chk.oblige("lean-build:" + n, False, out[-3000:])
        # the driver is needed for the correspondence; try it alone
        rc2, out2 = lake(["driver"])
        if rc2 != 0:
            chk.oblige("lean-build:driver", False, out2[-3000:])
    else:
        chk.oblige("lean-build:" + mod, True)
    # axioms of the property theorems
    rc, out = lean_file(props_rel)
    ax = parse_axioms(out)
    errs = ERR_RE.findall(out)
    # further property files of the same property (model areas added later: their theorems are audited the same way)
    for x in extra_props:
        rcx, outx = lean_file(x)
        axx = parse_axioms(outx)
        errs += ERR_RE.findall(outx)
        if not axx:
            chk.oblige("axiom-audit:" + x, False, "no #print axioms output:\n" + outx[-2000:])
        ax.update(axx); out += outx
    for f, l, _ in errs:
        chk.oblige("theorem:" + theorem_at_line(os.path.join(LEAN, f) if not os.path.isabs(f) else f, int(l)), False, out[-3000:])
    if not ax and not errs:
        chk.oblige("axiom-audit:" + mod, False, "no #print axioms output:\n" + out[-2000:])
    for name, axs in sorted(ax.items()):
        okax = set(axs) <= ALLOWED_AXIOMS
        chk.oblige("theorem:" + name, okax, "axioms: %s" % axs)
    # tie theorems
    cj = canon_json()
    for area, names in tie.items():
        rel = "BdModel/Tie/%s.lean" % area
        # every check that ties an area also ties the "rest of file" skeletons of that area (declarations that are
        # not anchored one by one): a change anywhere in the files the property lives in is noticed
        try:
            allt = re.findall(r"^theorem tie_(\w+) ", open(os.path.join(LEAN, rel)).read(), re.M)
        except OSError:
            allt = []
        names = list(names if names is not None else allt)
        names += [t for t in allt if t.startswith("h_rest_") and t not in names]
        rc, out = lean_file(rel)
        failed = {theorem_at_line(os.path.join(LEAN, rel), int(l)) for f, l, _ in ERR_RE.findall(out)}
        tax = parse_axioms(out)
        for n in names:
            full = "tie_" + n
            ok = full not in failed and any(k.endswith("." + full) for k in tax)
            detail = ""
            if not ok:
                detail = tie_diff(ex, cj, area, n)
            chk.oblige("tie:%s.%s" % (area, n), ok, detail)
    bad = audit_sources(import_closure(props_rel) + import_closure('Driver/Main.lean') + [f for x in extra_props for f in import_closure(x)])
    chk.oblige("source-audit(no sorry/axiom/native_decide/…)", not bad, "; ".join(bad))
    if chk.tier == "thorough":
        with Lock("lake"):
            rc, out = sh(["lake", "env", "leanchecker", mod], cwd=LEAN, timeout=3000)
        chk.oblige("leanchecker:" + mod, rc == 0, out[-2000:])
    chk.checker_cmd = "cd /verif/lean && lake build %s && lake env lean %s%s" % (
        mod, props_rel, " && lake env leanchecker " + mod if chk.tier == "thorough" else "")
    return ex


def tie_diff(ex, cj, area, name):
    """human-readable difference between extracted and canonical datum"""
    if name.startswith("h_"):
        for fid, fo in ex.get("funcs", {}).items():
            if lean_ident(fid) == name[2:]:
                co = cj.get("funcs", {}).get(fid, {})
                a, b = co.get("skeleton") or [], fo.get("skeleton") or []
                import difflib
                return "anchored function %s changed:\n" % fid + "\n".join(difflib.unified_diff(a, b, "canonical", "current", lineterm="", n=1))[:3000]
    a = cj.get("tables", {}).get(area, {}).get(name)
    b = ex.get("tables", {}).get(area, {}).get(name)
    return "table %s.%s: canonical=%s current=%s" % (area, name, json.dumps(a)[:1500], json.dumps(b)[:1500])


def recanon(areas):
    """adopt the current source facts as canonical (run by hand after the model was re-validated)"""
    ex = run_extract()
    os.makedirs(os.path.join(ROOT, "canon"), exist_ok=True)
    json.dump(ex, open(os.path.join(ROOT, "canon", "extracted.json"), "w"), indent=1, sort_keys=True)
    edir = os.path.join(LEAN, "BdModel", "Extracted")
    for f in sorted(os.listdir(edir)):
        area = f[:-5]
        if areas and area not in areas:
            continue
        txt = open(os.path.join(edir, f)).read()
        can = txt.replace("BdModel.Extracted." + area, "BdModel.Canon." + area).replace(
            "GENERATED by /verif/go/extract from /repo's current source. Do not edit.",
            "CANONICAL copy of Extracted/%s.lean: the source facts the model was written against "
            "(updated only by ./check --recanon after the model was re-validated)." % area)
        os.makedirs(os.path.join(LEAN, "BdModel", "Canon"), exist_ok=True)
        open(os.path.join(LEAN, "BdModel", "Canon", f), "w").write(can)
        names = re.findall(r"^def (\w+) :", txt, re.M)
        t = ["import BdModel.Extracted.%s" % area, "import BdModel.Canon.%s" % area,
             "/- Tie obligations: what the extractor reads from /repo NOW equals what the model was written against. -/",
             "namespace BdModel.Tie.%s" % area, ""]
        for n in names:
            t.append("theorem tie_%s : Extracted.%s.%s = Canon.%s.%s := by decide +kernel" % (n, area, n, area, n))
        t.append("")
        for n in names:
            t.append("#print axioms tie_%s" % n)
        t += ["", "end BdModel.Tie.%s" % area, ""]
        os.makedirs(os.path.join(LEAN, "BdModel", "Tie"), exist_ok=True)
        open(os.path.join(LEAN, "BdModel", "Tie", f), "w").write("\n".join(t))
    log("recanon done:", areas or "all")
