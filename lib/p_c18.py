"""C18 — DAG definitions are created, saved, renamed and deleted safely."""
import json, os, re, shutil, subprocess, tempfile
import common
from p_c06 import tie_names

NAMES = ["a", "b", "a b", "ab", "job[1]", "x_c", "très"]   # no dots other than the YAML extensions below (observation O3)

# Names spelled WITH one of the two YAML extensions. What the unchanged store does with a name (dag_store.go
# fileLocation = util.AddYamlExtension(dir/name); established by running it, see `denotes` in the harness):
#     x            -> x.yaml            x.yml       -> x.yaml   (suffix REPLACED)       x.yaml -> x.yaml
#     x.yml.yaml   -> x.yml.yaml  (another DAG, called "x.yml")                     x.yml.yml -> x.yml.yaml
#     x.YAML, c.d  -> taken literally by the store, but the loader appends ".yaml" (x.YAML.yaml): O3, not generated
# The client's rename looks both names up with dagStore.Find, which (since fix F50, 8b26466) falls back from the literal
# spelling to that same file, so every spelling works as rename source and target.
# So several spellings denote ONE DAG. `resolve` is the monitor's own notion of "the DAG a name denotes": the file
# of the DAGs directory. Two names with the same file are the same target; create / rename onto a name whose file
# exists must be refused and leave that file's bytes and its history untouched.
EXT_BASES = ["a", "report", "a b", "job[1]", "très"]
EXT_FORMS = [".yml", ".yaml", ".yml.yaml"]


def resolve(name):
    dot = name.rfind(".")
    if dot < 0: return name + ".yaml"
    if name[dot:] == ".yml": return name[:dot] + ".yaml"
    return name


def ext_suffix(c, o):
    sp = [c["names"][o[k]] for k in ("n", "n2") if k in o]
    if any(x.endswith(".yml") for x in sp): return ":name-with-yml-extension"
    if any(x.endswith(".yaml") for x in sp): return ":name-with-yaml-extension"
    return ""


def texts(rng):
    T = []
    for k in range(4):
        T.append("steps:\n  - name: s%d\n    command: echo %d\n" % (k, rng.randrange(1000)))
    T.append("steps:\n  - name: big\n    command: echo big\n" + "".join("# filler line %06d %s\n" % (i, "x" * 40) for i in range(rng.choice([200, 20000]))))
    T += ["steps: [", "steps:\n  - command: echo noname\n", "", "steps:\n  - name: a\n    depends: [zzz]\n    command: true\n  - name: a\n    command: x\n", "\t- :"]
    return T


def gen_case(rng, cid):
    nn = rng.randint(2, 4)
    names = rng.sample(NAMES, nn)
    if rng.random() < 0.35:           # two DAGs whose names differ only in letter case are two DAGs
        base = rng.choice(["a", "ab", "report"])
        pair = [base, base.capitalize() if rng.random() < 0.5 else base.upper()]
        names = pair + [x for x in names if x not in pair][:nn - 2]
        nn = len(names)
    if rng.random() < 0.45:           # spellings with a YAML extension next to (mostly) the bare name they alias
        base = rng.choice(EXT_BASES)
        forms = [base + e for e in rng.sample(EXT_FORMS, rng.randint(1, 3))]
        if rng.random() < 0.8: forms.append(base)
        names = forms + [x for x in names if x not in forms][:max(1, 5 - len(forms))]
        rng.shuffle(names)
        nn = len(names)
    T = texts(rng)
    ops, pay, nreq = [], 0, 0
    t0 = 1717200000000
    for _ in range(rng.randint(6, 30)):
        r = rng.random()
        n = rng.randrange(nn)
        if r < 0.25: ops.append({"op": "create", "n": n})
        elif r < 0.5: ops.append({"op": "save", "n": n, "text": rng.randrange(len(T))})
        elif r < 0.65:
            n2 = rng.choice([x for x in range(nn) if x != n])
            ops.append({"op": "rename", "n": n, "n2": n2})
        elif r < 0.75: ops.append({"op": "delete", "n": n})
        elif r < 0.8: ops.append({"op": "list"})
        else:
            ops.append({"op": "run", "n": n, "t": t0 + rng.randrange(3 * 86400000), "req": "%08x-%04d" % (rng.randrange(1 << 32), nreq), "p": "p%d" % pay})
            pay += 1; nreq += 1
    return {"id": "d%d" % cid, "names": names, "texts": T, "ops": ops}


def directed_cases(rng):
    """the aliasing spellings, deterministically: `report` exists as report.yaml; every other spelling of it as a
    create / rename target must be refused; `report.yml.yaml` is another DAG"""
    N = ["report", "report.yml", "report.yaml", "other", "report.yml.yaml"]
    t0 = 1717200000000
    run = lambda n, k: {"op": "run", "n": n, "t": t0 + k * 3600000, "req": "%08x-%04d" % (rng.randrange(1 << 32), k), "p": "p%d" % k}
    head = [{"op": "create", "n": 0}, {"op": "save", "n": 0, "text": 0}, run(0, 0), {"op": "create", "n": 3}, {"op": "save", "n": 3, "text": 1}, run(3, 1)]
    a = head + [{"op": "create", "n": 1}, {"op": "create", "n": 2}, {"op": "rename", "n": 3, "n2": 1}, {"op": "rename", "n": 3, "n2": 2},
                {"op": "create", "n": 4}, {"op": "rename", "n": 3, "n2": 4}, {"op": "rename", "n": 0, "n2": 2}, {"op": "rename", "n": 0, "n2": 1},
                {"op": "rename", "n": 1, "n2": 3}, {"op": "save", "n": 1, "text": 2}, run(2, 2), {"op": "delete", "n": 4},
                {"op": "rename", "n": 3, "n2": 4}, {"op": "delete", "n": 2}, {"op": "create", "n": 1}, {"op": "list"}]
    b = head + [{"op": "delete", "n": 1}, {"op": "rename", "n": 3, "n2": 1}, {"op": "create", "n": 3}, {"op": "create", "n": 2}]
    r = head + [{"op": "rename", "n": 3, "n2": 1}, {"op": "rename", "n": 3, "n2": 2}, {"op": "rename", "n": 2, "n2": 3}, {"op": "list"}]   # renames only
    return [{"id": "dx0", "names": N, "texts": texts(rng), "ops": a}, {"id": "dx1", "names": N, "texts": texts(rng), "ops": b},
            {"id": "dx2", "names": N, "texts": texts(rng), "ops": r}]


def driver_text(c, valid):
    # The Lean model (Defs/Store.lean) works on abstract names. Each spelling is handed to the driver (`sp` lines);
    # the model's name of a spelling is `keyOf` = the first spelling with the same `resolve` (Defs/Names.lean:
    # `resolve` models util.AddYamlExtension, anchored `defs.AddYamlExtension` and tied by skeleton; theorems
    # C18_names_*: spellings with the same resolution are the same key, and only those). The driver answers every
    # `sp` with the file it resolves to, which is compared with the monitor's `resolve` and with the file the
    # implementation is OBSERVED to write for that name (`denotes`).
    L = ["case id %s nn %d valid %s" % (c["id"], len(c["names"]), ",".join("1" if v else "0" for v in valid))]
    for nm in c["names"]:
        L.append(("sp " + ",".join(str(ord(ch)) for ch in nm)).strip())
    reqn = {}
    for o in c["ops"]:
        k = o["op"]
        if k == "create": L.append("create %d" % o["n"])
        elif k == "save": L.append("save %d %d" % (o["n"], o["text"]))
        elif k == "rename": L.append("rename %d %d" % (o["n"], o["n2"]))
        elif k == "delete": L.append("delete %d" % o["n"])
        elif k == "list": L.append("list")
        elif k == "run":
            reqn.setdefault(o["req"], len(reqn) + 1)
            L.append("run %d %d %d %d %s" % (o["n"], o["t"], int(o["req"][:8], 16), reqn[o["req"]], o["p"][1:]))
    return L


def impl_line(d):
    return "dump err=%d defs=%s hist=%s" % (1 if d["err"] else 0, ",".join(d["defs"]),
                                            ";".join(",".join(p[1:] for p in (h or [])) for h in d["hist"]))


class Spec:
    """the property's own reading: DAG (= the file a name denotes, `resolve`) -> text, DAG -> recorded runs; judged on
    the CONTENT of the DAGs directory after every operation (name and bytes of every file), not on the store's answers"""
    def __init__(self, c, valid):
        self.c, self.valid = c, valid
        self.file = c["files"]
        self.keys = list(dict.fromkeys(self.file))
        self.defs, self.hist = {}, {f: [] for f in self.keys}
        self.dir = {}                                   # the directory as the implementation left it after the previous op
        self.resumable = False

    def step(self, o, d):
        """apply op o given the implementation's dump d AFTER it; yields (signature, detail)"""
        names = self.c["names"]
        sfx = ext_suffix(self.c, o)
        before_defs, before_dir = dict(self.defs), self.dir
        now = {e[0]: e[1] for e in (d.get("dir") or [])}
        self.dir = now
        self.resumable = False
        first = {f: self.file.index(f) for f in self.keys}
        k, n = o["op"], o.get("n")
        f = self.file[n] if n is not None else None
        f2 = self.file[o["n2"]] if "n2" in o else None
        erred = bool(d["err"])
        if k == "create":
            if f in self.defs:
                if not erred: yield ("create-over-existing-not-refused" + sfx, "create %r (denotes %s, which exists)" % (names[n], f))
            else:
                self.defs[f] = "tmpl"
        elif k == "save":
            if not self.valid[o["text"]]:
                if not erred: yield ("invalid-text-accepted" + sfx, "save %r text %d" % (names[n], o["text"]))
            elif f in self.defs:
                self.defs[f] = "t%d" % o["text"]
            elif not erred:
                yield ("save-of-missing-dag-accepted" + sfx, "save %r" % names[n])
        elif k == "rename":
            n2 = o["n2"]
            if f2 == f:
                pass                                    # onto another spelling of its own name: nothing may change, whatever the answer
            elif f2 in self.defs:
                if not erred: yield ("rename-onto-existing-dag-not-refused" + sfx, "rename %r -> %r (denotes %s, which exists)" % (names[n], names[n2], f2))
            elif f in self.defs:
                if erred and now == before_dir:
                    # source exists (under whatever spelling, x.yml included), target free: nothing stands in the way
                    yield ("rename:admissible-rename-refused" + sfx, "rename %r -> %r (%s exists, %s is free) answered with an error; nothing changed" % (names[n], names[n2], f, f2))
                    self.resumable = True
                elif erred and f not in now and now.get(f2) == self.defs[f]:
                    # neither refused-and-unchanged nor done: the answer is an error, yet the definition has moved
                    gh2 = sorted(d["hist"][first[f2]] or [])
                    carried = gh2 == sorted(p for _, p in self.hist[f] + self.hist[f2])
                    yield ("rename:failure-reported-but-definition-moved" + ("" if carried or not self.hist[f] else "-history-left-behind") + sfx,
                           "rename %r -> %r answered with an error, but %s is gone and %s holds its text%s" % (
                               names[n], names[n2], f, f2, "" if carried or not self.hist[f] else "; its %d recorded runs are still filed under %s" % (len(self.hist[f]), f)))
                    self.defs[f2] = self.defs.pop(f)
                    if carried: self.hist[f2] = self.hist[f2] + self.hist[f]; self.hist[f] = []
                    self.resumable = True               # the reference follows what happened; the rest of the case is still judged
                else:
                    self.defs[f2] = self.defs.pop(f)
                    self.hist[f2] = self.hist[f2] + self.hist[f]; self.hist[f] = []
        elif k == "delete":
            self.defs.pop(f, None); self.hist[f] = []      # history goes first, whether or not the file exists
        elif k == "run":
            self.hist[f].append((o["t"], o["p"]))
        # compare the world: every DAG of the case, by the bytes of its file and by its history
        for key in sorted(self.keys, key=lambda x: 0 if x == f2 else 1 if x == f else 2):      # the target first: an overwrite is the headline
            nm = names[first[key]]
            want = self.defs.get(key, "-")
            got = now.get(key, "-")
            other = key != f and key != f2
            if got != want:
                kind = "other-dag-changed" if other else ("refused-or-invalid-op-changed-definition" if erred else "definition-wrong")
                if want != "-" and got == "-": kind = "definition-lost"
                if k == "rename" and key == f2 and f2 != f and before_defs.get(key) is not None and got != before_defs.get(key): kind = "rename-overwrote-existing-dag"
                if k == "create" and key == f and before_defs.get(key) is not None and got != before_defs.get(key): kind = "create-overwrote-existing-dag"
                yield ("%s:%s%s" % (k, kind, sfx), "after %s: %r (file %s) holds %s, expected %s" % (json.dumps(o), nm, key, got, want))
            wh = [p for _, p in sorted(self.hist[key], reverse=True)]
            gh = d["hist"][first[key]] or []
            if sorted(gh) != sorted(wh):
                kind = "other-dag-history-changed" if other else "history-wrong"
                yield ("%s:%s%s" % (k, kind, sfx), "after %s: history of %r (file %s) is %r, expected %r" % (json.dumps(o), nm, key, gh, wh))
        # whatever a name denotes: no operation may change or remove a file that was there, other than its own
        own = {"create": set(), "save": {f}, "rename": {f}, "delete": {f}}.get(k, set())
        for g, tag in before_dir.items():
            if g not in own and now.get(g) != tag:
                yield ("%s:existing-file-%s%s" % (k, "removed" if g not in now else "overwritten", sfx),
                       "after %s: file %s held %s, now %s" % (json.dumps(o), g, tag, now.get(g, "nothing")))
        if d.get("stray"):
            yield ("stray-file-left-in-dags-dir" + sfx, "after %s: %r" % (json.dumps(o), d["stray"]))
        return


def crash_save(binp, rng, tier, chk):
    """kill the saving process before every system call that touches the DAGs directory"""
    work = tempfile.mkdtemp(prefix="verif-c18-")
    n_states = 0
    try:
        dags = os.path.join(work, "dags"); os.makedirs(dags)
        old = "steps:\n  - name: old\n    command: echo old\n" + "# old\n" * rng.choice([0, 3000])
        for size in ([50, 70000] if tier == "quick" else [10, 4096, 70000, 1 << 20]):
            new = "steps:\n  - name: new\n    command: echo new\n" + "#" * size + "\n"
            target = os.path.join(dags, "v.yaml")
            newf = os.path.join(work, "new.yaml"); open(newf, "w").write(new)
            nxt = "steps:\n  - name: next\n    command: echo next\n"      # shorter than every `new`
            nextf = os.path.join(work, "next.yaml"); open(nextf, "w").write(nxt)
            def reset():
                for f in os.listdir(dags):
                    os.remove(os.path.join(dags, f))
                open(target, "w").write(old)
            reset()
            log = os.path.join(work, "st.log")
            SYS = "openat,write,rename,renameat,renameat2,unlinkat,unlink,fsync,ftruncate,chmod,fchmod,fchmodat,close"
            subprocess.run(["strace", "-f", "-y", "-e", "trace=" + SYS, "-o", log, binp, "execsave", dags, "v", newf],
                           env=dict(os.environ, GOMAXPROCS="1"), stdout=subprocess.PIPE, stderr=subprocess.PIPE, timeout=60)
            counts, points = {}, []
            for line in open(log, errors="replace"):
                m = re.match(r"\d+\s+(\w+)\(", line)
                if not m or "resumed>" in line: continue
                nm = m.group(1); counts[nm] = counts.get(nm, 0) + 1
                if dags in line: points.append((nm, counts[nm]))
            if open(target).read() != new:
                chk.oblige("harness-run:execsave-completes", False, "uninterrupted save did not store the new text"); return 0
            for nm, k in points:
                reset()
                p = subprocess.run(["strace", "-f", "-e", "trace=" + nm, "-e", "inject=%s:signal=KILL:when=%d" % (nm, k), "-o", "/dev/null",
                                    binp, "execsave", dags, "v", newf], env=dict(os.environ, GOMAXPROCS="1"),
                                   stdout=subprocess.PIPE, stderr=subprocess.PIPE, timeout=60)
                n_states += 1
                chk.evaluations += 1
                chk.nontrivial.add("save-crash-%d-%s-%d" % (size, nm, k))
                got = open(target).read() if os.path.exists(target) else None
                acked = b"ack" in p.stdout
                if got not in (old, new):
                    what = "missing" if got is None else ("empty" if got == "" else "partial (%d of %d bytes)" % (len(got), len(new)))
                    chk.violation("C18:save-not-atomic:definition-%s-after-kill" % what.split(" ")[0],
                                  "saving process killed before %s#%d (new text %d bytes): definition file is %s — neither the old nor the new text" % (nm, k, len(new), what),
                                  {"crash_save": {"size": size, "syscall": nm, "k": k}})
                if acked and got != new:
                    chk.violation("C18:acknowledged-save-lost", "save acknowledged but file holds something else (kill before %s#%d)" % (nm, k),
                                  {"crash_save": {"size": size, "syscall": nm, "k": k}})
                # the next save of the same DAG, on whatever the killed one left behind (temp files included)
                p2 = subprocess.run([binp, "execsave", dags, "v", nextf], env=dict(os.environ, GOMAXPROCS="1"),
                                    stdout=subprocess.PIPE, stderr=subprocess.PIPE, timeout=60)
                chk.evaluations += 1
                got2 = open(target).read() if os.path.exists(target) else None
                if b"ack" in p2.stdout and got2 != nxt:
                    what = "missing" if got2 is None else "%d bytes, %s" % (len(got2), "the new text followed by stale bytes" if got2.startswith(nxt) else "something else")
                    chk.violation("C18:save-after-killed-save-not-complete",
                                  "a save was killed before %s#%d (text %d bytes); the next, acknowledged save of %d bytes left the definition file %s" % (nm, k, len(new), len(nxt), what),
                                  {"crash_save": {"size": size, "syscall": nm, "k": k}})
                elif b"ack" not in p2.stdout and got2 not in (got, nxt):
                    chk.violation("C18:save-not-atomic:refused-save-after-killed-save-changed-definition",
                                  "a save was killed before %s#%d; the next save was not acknowledged yet changed the definition" % (nm, k),
                                  {"crash_save": {"size": size, "syscall": nm, "k": k}})
    finally:
        shutil.rmtree(work, ignore_errors=True)
    return n_states


def run(chk, replay):
    chk.trusted = common.TRUSTED_COMMON + ["strace signal injection (kill precedes the call)", "validity of a text = verdict of dag.LoadYAML (property C13 is about that verdict)"]
    chk.assumptions = ["crash = process kill (page cache survives), not power loss", "names without '/' (the backward-compatibility path form is not generated)",
                       "dotted names other than the two YAML extensions (x.YAML, c.d: the store takes them literally, the loader appends .yaml) are not generated (observation O3)"]
    common.lean_obligations(chk, "BdModel/Props/C18.lean", {"Defs": tie_names("Defs"), "Hist": tie_names("Hist")})
    binp, out = common.build_harness("defs")
    if not binp:
        chk.oblige("harness-build:defs", False, out[-3000:]); return
    chk.oblige("harness-build:defs", True)
    rng = chk.rng
    if replay:
        rp = json.load(open(replay)); cc = rp["case"]
        if "crash_save" in cc:
            crash_save(binp, rng, chk.tier, chk); return
        cases = [cc["case"] if "case" in cc else cc]
    else:
        cases = [gen_case(rng, k) for k in range(80 if chk.tier == "quick" else 800)] + directed_cases(rng)
    for c in cases:
        c["files"] = [resolve(nm) for nm in c["names"]]     # the monitor's notion; the harness reads definitions and histories there
    p = subprocess.run([binp], input="\n".join(json.dumps(c) for c in cases) + "\n", stdout=subprocess.PIPE, stderr=subprocess.PIPE, text=True, timeout=3000)
    res = {}
    for l in p.stdout.strip().split("\n"):
        if l.strip():
            r = json.loads(l); res[r["id"]] = r
    text = []
    for c in cases:
        if c["id"] in res:
            text += driver_text(c, res[c["id"]]["valid"])
    rc, dout, derr = common.run_driver("defs", "\n".join(text) + "\n", timeout=600)
    if rc != 0:
        chk.oblige("driver-run:defs", False, derr[-2000:]); return
    pred, resolved, cur = {}, {}, None
    for l in dout.split("\n"):
        if l.startswith("case "):
            cur = l.split(" ")[1]; pred[cur] = []; resolved[cur] = []
        elif cur is not None and l.startswith("resolved"):
            resolved[cur].append("".join(chr(int(x)) for x in l[9:].split(",") if x))
        elif cur is not None and l:
            pred[cur].append(l)
    stat = {"ops": 0, "refused": 0, "by_op": {}, "invalid_saves": 0, "rename_onto_existing": 0, "create_existing": 0,
            "cases_with_extension_spellings": 0, "ops_on_extension_spelling": 0, "create_onto_taken_other_spelling": 0,
            "rename_onto_taken_other_spelling": 0, "rename_onto_own_other_spelling": 0, "rename_to_free_yml_spelling": 0}
    dis = 0
    # which file a name denotes: monitor's reading = model (`resolve`) = what the implementation is observed to write
    nres, badres = 0, []
    for c in cases:
        r = res.get(c["id"])
        if r is None or not r.get("denotes"): continue
        for i, nm in enumerate(c["names"]):
            nres += 1
            m = resolved.get(c["id"], [])
            if not (r["denotes"][i] == c["files"][i] and i < len(m) and m[i] == c["files"][i]):
                badres.append("%r: monitor %s, model %s, implementation writes %s" % (nm, c["files"][i], m[i] if i < len(m) else "?", r["denotes"][i]))
    chk.evaluations += nres
    chk.oblige("correspondence:defs:name-resolution (the file a spelled name denotes: monitor = model `resolve` = the file the store is observed to write)",
               not badres, "; ".join(sorted(set(badres))[:6]))
    for c in cases:
        r = res.get(c["id"])
        if r is None:
            chk.oblige("harness-run:no-result:" + c["id"], False, p.stderr[-500:]); continue
        if r.get("panic"):
            chk.violation("C18:panic", r["panic"][:300], {"case": c}); continue
        spec = Spec(c, r["valid"])
        if any("." in nm for nm in c["names"]): stat["cases_with_extension_spellings"] += 1
        for i, o in enumerate(c["ops"]):
            if i >= len(r["dumps"]): break
            d = r["dumps"][i]
            chk.evaluations += 1
            stat["ops"] += 1; stat["refused"] += bool(d["err"]); stat["by_op"][o["op"]] = stat["by_op"].get(o["op"], 0) + 1
            if o["op"] == "save" and not r["valid"][o["text"]]: stat["invalid_saves"] += 1
            fn = c["files"][o["n"]] if "n" in o else None
            fn2 = c["files"][o["n2"]] if "n2" in o else None
            sfx = ext_suffix(c, o)
            if o["op"] == "rename" and fn2 in spec.defs and fn2 != fn:
                stat["rename_onto_existing"] += 1
                if c["names"][o["n2"]] != c["names"][spec.file.index(fn2)] and sfx: stat["rename_onto_taken_other_spelling"] += 1
            if o["op"] == "rename" and fn2 == fn and fn in spec.defs: stat["rename_onto_own_other_spelling"] += 1
            if o["op"] == "rename" and fn in spec.defs and fn2 not in spec.defs and c["names"][o["n2"]].endswith(".yml"): stat["rename_to_free_yml_spelling"] += 1
            if o["op"] == "create" and fn in spec.defs:
                stat["create_existing"] += 1
                if sfx: stat["create_onto_taken_other_spelling"] += 1
            if sfx: stat["ops_on_extension_spelling"] += 1
            if o["op"] in ("rename", "delete", "save") or (sfx and o["op"] == "create"):
                chk.nontrivial.add(c["id"] + ":%d" % i)
            bad = list(spec.step(o, d))
            for sig, detail in bad[:1]:
                chk.violation("C18:" + sig, detail, {"case": dict(c, ops=c["ops"][:i + 1])})
            if len(bad) == 1 and spec.resumable: bad = []
            m = pred.get(c["id"], [])
            if i < len(m) and m[i] != impl_line(d):
                dis += 1; chk.disagreements += 1
                if dis <= 3:
                    chk.oblige("correspondence:defs:%s@%d" % (c["id"], i), False, "op %s\nmodel=%s\nimpl =%s\ncase=%s" % (
                        json.dumps(o), m[i], impl_line(d), json.dumps(dict(c, texts=["…"]))[:1500]))
                break
            if bad: break
    chk.disagreements_checked = chk.disagreements
    if dis == 0:
        chk.oblige("correspondence:defs (after every operation: every definition, every history, the error flag: model = implementation)", True)
    stat["save_crash_states"] = crash_save(binp, rng, chk.tier, chk) if not replay else 0
    chk.stats = stat
    chk.samples = [{"names": c["names"], "ops": c["ops"][:8]} for c in cases[:2]]
    chk.rule = ("sequences of 6-30 create/save/rename/delete/list operations through the real client + local DAG store over 2-5 names (spaces, "
                "glob metacharacters, _c, letter-case pairs; in ~45 % of the cases spellings WITH a YAML extension — x.yml, x.yaml, x.yml.yaml — "
                "next to the bare name they alias: a DAG is the file a name denotes, two spellings of one file are one target; plus two directed "
                "aliasing cases) interleaved with recorded runs; candidate texts valid / invalid YAML / nameless step / empty / "
                "duplicate step / huge (1 MB); after every op the full world (every definition's text, every history, stray files) is "
                "checked against the reference reading of the property and compared with the model; plus the saving process SIGKILLed "
                "before every system call touching the DAGs directory for several text sizes; non-trivial = rename/delete/save ops and crash states")
