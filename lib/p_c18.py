"""C18 — DAG definitions are created, saved, renamed and deleted safely."""
import json, os, re, shutil, subprocess, tempfile
import common
from p_c06 import tie_names

NAMES = ["a", "b", "a b", "ab", "job[1]", "x_c", "très"]   # no dots: AddYamlExtension treats ".d" as an extension (observation O3)


def texts(rng):
    T = []
    for k in range(4):
        T.append("steps:\n  - name: s%d\n    command: echo %d\n" % (k, rng.randrange(1000)))
    T.append("steps:\n  - name: big\n    command: echo big\n" + "".join("# filler line %06d %s\n" % (i, "x" * 40) for i in range(rng.choice([200, 20000]))))
    T += ["steps: [", "steps:\n  - command: echo noname\n", "", "steps:\n  - name: a\n    depends: [zzz]\n    command: true\n  - name: a\n    command: x\n", "\t- :"]
    return T


def gen_case(rng, cid):
    nn = rng.randint(2, 4)
    names = rng.sample(NAMES, nn)
    if rng.random() < 0.35:           # two DAGs whose names differ only in letter case are two DAGs
        base = rng.choice(["a", "ab", "report"])
        pair = [base, base.capitalize() if rng.random() < 0.5 else base.upper()]
        names = pair + [x for x in names if x not in pair][:nn - 2]
        nn = len(names)
    T = texts(rng)
    ops, pay, nreq = [], 0, 0
    t0 = 1717200000000
    for _ in range(rng.randint(6, 30)):
        r = rng.random()
        n = rng.randrange(nn)
        if r < 0.25: ops.append({"op": "create", "n": n})
        elif r < 0.5: ops.append({"op": "save", "n": n, "text": rng.randrange(len(T))})
        elif r < 0.65:
            n2 = rng.choice([x for x in range(nn) if x != n])
            ops.append({"op": "rename", "n": n, "n2": n2})
        elif r < 0.75: ops.append({"op": "delete", "n": n})
        elif r < 0.8: ops.append({"op": "list"})
        else:
            ops.append({"op": "run", "n": n, "t": t0 + rng.randrange(3 * 86400000), "req": "%08x-%04d" % (rng.randrange(1 << 32), nreq), "p": "p%d" % pay})
            pay += 1; nreq += 1
    return {"id": "d%d" % cid, "names": names, "texts": T, "ops": ops}


def driver_text(c, valid):
    L = ["case id %s nn %d valid %s" % (c["id"], len(c["names"]), ",".join("1" if v else "0" for v in valid))]
    reqn = {}
    for o in c["ops"]:
        k = o["op"]
        if k == "create": L.append("create %d" % o["n"])
        elif k == "save": L.append("save %d %d" % (o["n"], o["text"]))
        elif k == "rename": L.append("rename %d %d" % (o["n"], o["n2"]))
        elif k == "delete": L.append("delete %d" % o["n"])
        elif k == "list": L.append("list")
        elif k == "run":
            reqn.setdefault(o["req"], len(reqn) + 1)
            L.append("run %d %d %d %d %s" % (o["n"], o["t"], int(o["req"][:8], 16), reqn[o["req"]], o["p"][1:]))
    return L


def impl_line(d):
    return "dump err=%d defs=%s hist=%s" % (1 if d["err"] else 0, ",".join(d["defs"]),
                                            ";".join(",".join(p[1:] for p in (h or [])) for h in d["hist"]))


class Spec:
    """the property's own reading: names -> text, names -> recorded runs"""
    def __init__(self, c, valid):
        self.c, self.valid = c, valid
        self.defs, self.hist = {}, {i: [] for i in range(len(c["names"]))}

    def step(self, o, d):
        """apply op o given the implementation's dump d AFTER it; yields (signature, detail)"""
        before_defs, before_hist = dict(self.defs), {k: list(v) for k, v in self.hist.items()}
        k, n = o["op"], o.get("n")
        erred = bool(d["err"])
        if k == "create":
            if n in self.defs:
                if not erred: yield ("create-over-existing-not-refused", "create %r" % self.c["names"][n])
            else:
                self.defs[n] = "tmpl"
        elif k == "save":
            if not self.valid[o["text"]]:
                if not erred: yield ("invalid-text-accepted", "save %r text %d" % (self.c["names"][n], o["text"]))
            elif n in self.defs:
                self.defs[n] = "t%d" % o["text"]
            elif not erred:
                yield ("save-of-missing-dag-accepted", "save %r" % self.c["names"][n])
        elif k == "rename":
            n2 = o["n2"]
            if n2 in self.defs:
                if not erred: yield ("rename-onto-existing-dag-not-refused", "rename %r -> %r" % (self.c["names"][n], self.c["names"][n2]))
            elif n in self.defs:
                self.defs[n2] = self.defs.pop(n)
                self.hist[n2] = self.hist[n2] + self.hist[n]; self.hist[n] = []
        elif k == "delete":
            self.defs.pop(n, None); self.hist[n] = []      # history goes first, whether or not the file exists
        elif k == "run":
            self.hist[n].append((o["t"], o["p"]))
        # compare the world
        for i, nm in enumerate(self.c["names"]):
            want = self.defs.get(i, "-")
            got = d["defs"][i]
            if got != want:
                kind = "other-dag-changed" if (i != n and i != o.get("n2")) else ("refused-or-invalid-op-changed-definition" if erred else "definition-wrong")
                if want != "-" and got == "-": kind = "definition-lost"
                if k == "rename" and i == o.get("n2") and before_defs.get(i) is not None and got != before_defs.get(i): kind = "rename-overwrote-existing-dag"
                yield ("%s:%s" % (k, kind), "after %s: %r holds %s, expected %s" % (json.dumps(o), nm, got, want))
            wh = [p for _, p in sorted(self.hist[i], reverse=True)]
            gh = d["hist"][i] or []
            if sorted(gh) != sorted(wh):
                if k == "delete" and i == n and "rename-onto" in "": pass
                kind = "other-dag-history-changed" if (i != n and i != o.get("n2")) else "history-wrong"
                yield ("%s:%s" % (k, kind), "after %s: history of %r is %r, expected %r" % (json.dumps(o), nm, gh, wh))
        if d.get("stray"):
            yield ("stray-file-left-in-dags-dir", "after %s: %r" % (json.dumps(o), d["stray"]))
        # the implementation's world is the truth the next comparison starts from only if it agrees; otherwise stop
        return


def crash_save(binp, rng, tier, chk):
    """kill the saving process before every system call that touches the DAGs directory"""
    work = tempfile.mkdtemp(prefix="verif-c18-")
    n_states = 0
    try:
        dags = os.path.join(work, "dags"); os.makedirs(dags)
        old = "steps:\n  - name: old\n    command: echo old\n" + "# old\n" * rng.choice([0, 3000])
        for size in ([50, 70000] if tier == "quick" else [10, 4096, 70000, 1 << 20]):
            new = "steps:\n  - name: new\n    command: echo new\n" + "#" * size + "\n"
            target = os.path.join(dags, "v.yaml")
            newf = os.path.join(work, "new.yaml"); open(newf, "w").write(new)
            nxt = "steps:\n  - name: next\n    command: echo next\n"      # shorter than every `new`
            nextf = os.path.join(work, "next.yaml"); open(nextf, "w").write(nxt)
            def reset():
                for f in os.listdir(dags):
                    os.remove(os.path.join(dags, f))
                open(target, "w").write(old)
            reset()
            log = os.path.join(work, "st.log")
            SYS = "openat,write,rename,renameat,renameat2,unlinkat,unlink,fsync,ftruncate,chmod,fchmod,fchmodat,close"
            subprocess.run(["strace", "-f", "-y", "-e", "trace=" + SYS, "-o", log, binp, "execsave", dags, "v", newf],
                           env=dict(os.environ, GOMAXPROCS="1"), stdout=subprocess.PIPE, stderr=subprocess.PIPE, timeout=60)
            counts, points = {}, []
            for line in open(log, errors="replace"):
                m = re.match(r"\d+\s+(\w+)\(", line)
                if not m or "resumed>" in line: continue
                nm = m.group(1); counts[nm] = counts.get(nm, 0) + 1
                if dags in line: points.append((nm, counts[nm]))
            if open(target).read() != new:
                chk.oblige("harness-run:execsave-completes", False, "uninterrupted save did not store the new text"); return 0
            for nm, k in points:
                reset()
                p = subprocess.run(["strace", "-f", "-e", "trace=" + nm, "-e", "inject=%s:signal=KILL:when=%d" % (nm, k), "-o", "/dev/null",
                                    binp, "execsave", dags, "v", newf], env=dict(os.environ, GOMAXPROCS="1"),
                                   stdout=subprocess.PIPE, stderr=subprocess.PIPE, timeout=60)
                n_states += 1
                chk.evaluations += 1
                chk.nontrivial.add("save-crash-%d-%s-%d" % (size, nm, k))
                got = open(target).read() if os.path.exists(target) else None
                acked = b"ack" in p.stdout
                if got not in (old, new):
                    what = "missing" if got is None else ("empty" if got == "" else "partial (%d of %d bytes)" % (len(got), len(new)))
                    chk.violation("C18:save-not-atomic:definition-%s-after-kill" % what.split(" ")[0],
                                  "saving process killed before %s#%d (new text %d bytes): definition file is %s — neither the old nor the new text" % (nm, k, len(new), what),
                                  {"crash_save": {"size": size, "syscall": nm, "k": k}})
                if acked and got != new:
                    chk.violation("C18:acknowledged-save-lost", "save acknowledged but file holds something else (kill before %s#%d)" % (nm, k),
                                  {"crash_save": {"size": size, "syscall": nm, "k": k}})
                # the next save of the same DAG, on whatever the killed one left behind (temp files included)
                p2 = subprocess.run([binp, "execsave", dags, "v", nextf], env=dict(os.environ, GOMAXPROCS="1"),
                                    stdout=subprocess.PIPE, stderr=subprocess.PIPE, timeout=60)
                chk.evaluations += 1
                got2 = open(target).read() if os.path.exists(target) else None
                if b"ack" in p2.stdout and got2 != nxt:
                    what = "missing" if got2 is None else "%d bytes, %s" % (len(got2), "the new text followed by stale bytes" if got2.startswith(nxt) else "something else")
                    chk.violation("C18:save-after-killed-save-not-complete",
                                  "a save was killed before %s#%d (text %d bytes); the next, acknowledged save of %d bytes left the definition file %s" % (nm, k, len(new), len(nxt), what),
                                  {"crash_save": {"size": size, "syscall": nm, "k": k}})
                elif b"ack" not in p2.stdout and got2 not in (got, nxt):
                    chk.violation("C18:save-not-atomic:refused-save-after-killed-save-changed-definition",
                                  "a save was killed before %s#%d; the next save was not acknowledged yet changed the definition" % (nm, k),
                                  {"crash_save": {"size": size, "syscall": nm, "k": k}})
    finally:
        shutil.rmtree(work, ignore_errors=True)
    return n_states


def run(chk, replay):
    chk.trusted = common.TRUSTED_COMMON + ["strace signal injection (kill precedes the call)", "validity of a text = verdict of dag.LoadYAML (property C13 is about that verdict)"]
    chk.assumptions = ["crash = process kill (page cache survives), not power loss", "names without '/' (the backward-compatibility path form is not generated)"]
    common.lean_obligations(chk, "BdModel/Props/C18.lean", {"Defs": tie_names("Defs"), "Hist": tie_names("Hist")})
    binp, out = common.build_harness("defs")
    if not binp:
        chk.oblige("harness-build:defs", False, out[-3000:]); return
    chk.oblige("harness-build:defs", True)
    rng = chk.rng
    if replay:
        rp = json.load(open(replay)); cc = rp["case"]
        if "crash_save" in cc:
            crash_save(binp, rng, chk.tier, chk); return
        cases = [cc["case"] if "case" in cc else cc]
    else:
        cases = [gen_case(rng, k) for k in range(80 if chk.tier == "quick" else 800)]
    p = subprocess.run([binp], input="\n".join(json.dumps(c) for c in cases) + "\n", stdout=subprocess.PIPE, stderr=subprocess.PIPE, text=True, timeout=3000)
    res = {}
    for l in p.stdout.strip().split("\n"):
        if l.strip():
            r = json.loads(l); res[r["id"]] = r
    text = []
    for c in cases:
        if c["id"] in res:
            text += driver_text(c, res[c["id"]]["valid"])
    rc, dout, derr = common.run_driver("defs", "\n".join(text) + "\n", timeout=600)
    if rc != 0:
        chk.oblige("driver-run:defs", False, derr[-2000:]); return
    pred, cur = {}, None
    for l in dout.split("\n"):
        if l.startswith("case "):
            cur = l.split(" ")[1]; pred[cur] = []
        elif cur is not None and l:
            pred[cur].append(l)
    stat = {"ops": 0, "refused": 0, "by_op": {}, "invalid_saves": 0, "rename_onto_existing": 0, "create_existing": 0}
    dis = 0
    for c in cases:
        r = res.get(c["id"])
        if r is None:
            chk.oblige("harness-run:no-result:" + c["id"], False, p.stderr[-500:]); continue
        if r.get("panic"):
            chk.violation("C18:panic", r["panic"][:300], {"case": c}); continue
        spec = Spec(c, r["valid"])
        for i, o in enumerate(c["ops"]):
            if i >= len(r["dumps"]): break
            d = r["dumps"][i]
            chk.evaluations += 1
            stat["ops"] += 1; stat["refused"] += bool(d["err"]); stat["by_op"][o["op"]] = stat["by_op"].get(o["op"], 0) + 1
            if o["op"] == "save" and not r["valid"][o["text"]]: stat["invalid_saves"] += 1
            if o["op"] == "rename" and o["n2"] in spec.defs: stat["rename_onto_existing"] += 1
            if o["op"] == "create" and o["n"] in spec.defs: stat["create_existing"] += 1
            if o["op"] in ("rename", "delete", "save"):
                chk.nontrivial.add(c["id"] + ":%d" % i)
            bad = list(spec.step(o, d))
            for sig, detail in bad[:1]:
                chk.violation("C18:" + sig, detail, {"case": dict(c, ops=c["ops"][:i + 1])})
            m = pred.get(c["id"], [])
            if i < len(m) and m[i] != impl_line(d):
                dis += 1; chk.disagreements += 1
                if dis <= 3:
                    chk.oblige("correspondence:defs:%s@%d" % (c["id"], i), False, "op %s\nmodel=%s\nimpl =%s\ncase=%s" % (
                        json.dumps(o), m[i], impl_line(d), json.dumps(dict(c, texts=["…"]))[:1500]))
                break
            if bad: break
    chk.disagreements_checked = chk.disagreements
    if dis == 0:
        chk.oblige("correspondence:defs (after every operation: every definition, every history, the error flag: model = implementation)", True)
    stat["save_crash_states"] = crash_save(binp, rng, chk.tier, chk) if not replay else 0
    chk.stats = stat
    chk.samples = [{"names": c["names"], "ops": c["ops"][:8]} for c in cases[:2]]
    chk.rule = ("sequences of 6-30 create/save/rename/delete/list operations through the real client + local DAG store over 2-4 names (spaces, dots, "
                "glob metacharacters, _c) interleaved with recorded runs; candidate texts valid / invalid YAML / nameless step / empty / "
                "duplicate step / huge (1 MB); after every op the full world (every definition's text, every history, stray files) is "
                "checked against the reference reading of the property and compared with the model; plus the saving process SIGKILLed "
                "before every system call touching the DAGs directory for several text sizes; non-trivial = rename/delete/save ops and crash states")
