"""C06 — history queries return exactly what was recorded, per DAG."""
import json, os, re
import common, hist

TIE = {"Hist": None}   # filled from the Tie file below


def tie_names(area):
    p = os.path.join(common.LEAN, "BdModel", "Tie", area + ".lean")
    return re.findall(r"^theorem tie_(\w+) ", open(p).read(), re.M) if os.path.exists(p) else []


def driver_text(c):
    reqn = {q: i + 1 for i, q in enumerate(c["reqs"])}
    def rq(q):
        if q not in reqn:
            reqn[q] = len(reqn) + 1
        return reqn[q]
    L = ["case id %s nd %d reqs %s ns %s" % (c["id"], len(c["dags"]), ",".join(str(rq(q)) for q in c["reqs"]),
                                              ",".join(map(str, c["ns"])))]
    for o in c["ops"]:
        k = o["op"]
        if k == "open":
            L.append("open %d %d %d %d" % (o["k"], o["d"], o["t"], int(o["req"][:8], 16)))
        elif k == "write":
            L.append("write %d %d %s" % (o["k"], rq(o["req"]), o["p"][1:]))
        elif k == "close":
            L.append("close %d" % o["k"])
        elif k == "abandon":
            L.append("abandon %d" % o["k"])
        elif k == "update":
            L.append("update %d %d %s" % (o["d"], rq(o["req"]), o["p"][1:]))
        elif k == "rename":
            L.append("rename %d %d" % (o["d"], o["d2"]))
        elif k == "removeOld":
            L.append("removeOld %d %d" % (o["d"], o["days"]))
        elif k == "removeAll":
            L.append("removeOld %d 0" % o["d"])
        elif k == "age":
            L.append("age %d %d" % (o["d"], o["days"]))
    return L


def impl_line(c, a):
    nd = len(c["dags"])
    pv = lambda x: x[1:] if x and not x.startswith("!") else "-"
    f = ";".join(",".join(pv(a["find"].get("%d/%s" % (d, q), "!")) for q in c["reqs"]) for d in range(nd))
    la = ",".join(pv(x) for x in a["latest"])
    re_ = ";".join("/".join(",".join(pv(p) for p in (a["recent"].get("%d/%d" % (d, n)) or [])) for n in c["ns"]) for d in range(nd))
    return "ans find=%s latest=%s recent=%s nfiles=%d" % (f, la, re_, len(a.get("files") or []))


def input_class(c, upto):
    """what is special about the history so far (goes into the signature of a violation)"""
    cls = []
    if any(re.search(r"[\[\]*?\\]", d) for d in c["dags"]): cls.append("glob-meta-name")
    ts = [o["t"] for o in c["ops"][:upto + 1] if o["op"] == "open"]
    if len({t // 1000 for t in ts}) < len(ts): cls.append("same-second-starts")
    if len(set(ts)) < len(ts): cls.append("same-millisecond-starts")
    if any(o["op"] == "rename" for o in c["ops"][:upto + 1]): cls.append("after-rename")
    return "+".join(cls) or "plain"


def glob_stream(chk, binp):
    """string layer: Lean `gmatch` / `escapeGlob` against Go's filepath.Match and jsondb's escapeGlob"""
    import subprocess
    rng = chk.rng
    alpha = list("ab.x1 _-") + ["*", "?", "[", "]", "\\", "/", "é", "日"]
    def word(n, pool=alpha):
        return "".join(rng.choice(pool) for _ in range(n))
    lines, kinds = [], []
    hx = lambda t: t.encode().hex() or "-"
    for _ in range(1500 if chk.tier == "quick" else 15000):
        k = rng.random()
        if k < 0.25:                       # escapeGlob itself
            lines.append("- " + hx(word(rng.randint(1, 10)))); kinds.append("esc"); continue
        pwd = word(rng.randint(1, 8))
        esc = "".join(("\\" + c) if c in "\\*?[" else c for c in pwd)
        if k < 0.6:                        # the store's own pattern against its own / foreign / mutated names
            pat = esc + "*.dat"
            r = rng.random()
            if r < 0.4: name = pwd + word(rng.randint(0, 6), list("0123456789.:_cab")) + ".dat"
            elif r < 0.55: name = pwd + word(rng.randint(0, 4)) + ".dat"
            elif r < 0.7: name = word(rng.randint(1, 8)) + ".dat"
            elif r < 0.85: name = pwd[:-1] + word(2) + ".dat"
            else: name = pwd + word(3) + ".da"
        else:                              # arbitrary class-free patterns
            pat = word(rng.randint(0, 7), [c for c in alpha if c not in "[]"])
            name = word(rng.randint(0, 7), [c for c in alpha if c not in "[]"])
            if rng.random() < 0.5:
                name = "".join(c if c not in "*?\\" else rng.choice("abx") for c in pat) + (word(1) if rng.random() < 0.3 else "")
        if not pat or not name: continue
        lines.append(hx(pat) + " " + hx(name)); kinds.append("own" if k < 0.6 else "free")
    text = "\n".join(lines) + "\n"
    p = subprocess.run([binp, "match"], input=text, stdout=subprocess.PIPE, stderr=subprocess.PIPE, text=True, timeout=600)
    rc, dout, derr = common.run_driver("glob", text, timeout=600)
    g, m = p.stdout.split(), dout.split()
    if len(g) != len(lines) or len(m) != len(lines):
        chk.oblige("correspondence:glob-output-count", False, "%d %d %d %s" % (len(g), len(m), len(lines), derr[-300:])); return
    st = {"lines": len(lines), "esc": 0, "own": 0, "free": 0, "matched": 0, "go_err": 0}
    bad = 0
    for ln, kd, a, b in zip(lines, kinds, g, m):
        st[kd] += 1; st["matched"] += a == "1"; st["go_err"] += a == "err"
        chk.evaluations += 1
        if a == "err":            # malformed pattern (trailing backslash): Go reports ErrBadPattern, the model says no match
            if b != "0": bad += 1
            continue
        if a != b:
            bad += 1
            if bad <= 3:
                chk.oblige("correspondence:glob:%s" % ln, False, "filepath.Match/escapeGlob=%s model=%s (kind %s)" % (a, b, kd))
    if bad == 0:
        chk.oblige("correspondence:glob (Lean gmatch = filepath.Match on class-free patterns, Lean escapeGlob = jsondb.escapeGlob)", True)
    return st


def run(chk, replay):
    chk.trusted = common.TRUSTED_COMMON + [
        "string layer of the store (file-name rendering, filepath.Glob, the timestamp regex, md5 of the DAG path) is below the "
        "record-layer model: tied by skeleton hashes of the anchored functions and validated by the correspondence stream",
        "encoding/json (one status per line)"]
    chk.assumptions = ["two runs of one DAG with IDENTICAL millisecond start times may be returned in either order (left open by the property)",
                       "DAG names containing a timestamp-like substring (2ddddddd.dd:dd:dd) are outside the name pool (DESIGN F3)"]
    tn = tie_names("Hist")
    common.lean_obligations(chk, "BdModel/Props/C06.lean", {"Hist": tn}, extra_props=["BdModel/Props/C06Names.lean", "BdModel/Props/C07Cache.lean"])
    binp, out = common.build_harness("hist")
    if not binp:
        chk.oblige("harness-build:hist", False, out[-3000:]); return
    chk.oblige("harness-build:hist", True)
    rng = chk.rng
    cases = []
    if replay and ("stamp_case" in json.load(open(replay)).get("case", {}) or "cache_ops" in json.load(open(replay)).get("case", {})):
        import x_names, x_cache
        rc_ = json.load(open(replay))["case"]
        (x_names if "stamp_case" in rc_ else x_cache).stream(chk, "C06", rc_); return
    if not replay:
        import x_names, x_cache
        x_names.stream(chk, "C06")      # file-name / timestamp layer (Hist/Stamp.lean): real newFile / timestamp / filterLatest / latestToday = model
        x_cache.stream(chk, "C06")      # read cache (Hist/Cache.lean): real filecache + ParseFile = model; a quiet query returns the last status
    if replay and json.load(open(replay)).get("case", {}).get("frozen"):
        import p_c20
        ba, _o = common.build_harness("api")
        p_c20.frozen_agent_stream(chk, ba, only=json.load(open(replay))["case"], view_only=True); return
    if not replay:
        # the look-up clause seen through the API's long-lived client (store + read cache + the callers that edit the
        # objects they are handed): after an edit refused inside client.UpdateStatus the answers still equal the files
        import p_c20
        ba, _o = common.build_harness("api")
        if ba:
            p_c20.frozen_agent_stream(chk, ba, view_only=True)
    if replay:
        rp = json.load(open(replay)); cases = [rp["case"]["case"] if "case" in rp["case"] else rp["case"]]
    else:
        cdir = os.path.join(common.ROOT, "corpus", "hist")
        if os.path.isdir(cdir):
            for f in sorted(os.listdir(cdir)):
                c = json.load(open(os.path.join(cdir, f))); c["id"] = "corpus-" + f[:-5]; cases.append(c)
        for k in range(12 if chk.tier == "quick" else 60):
            cases.append(hist.gen_race_case(rng, k, 250))
        n = 150 if chk.tier == "quick" else 1500
        for k in range(n):
            cases.append(hist.gen_case(rng, k, rng.randint(8, 40), plain_names=rng.random() < 0.25))
    results, rc, err = hist.run_cases(binp, cases)
    if rc != 0:
        chk.oblige("harness-run:hist", False, err[-2000:])
    text = []
    for c in cases:
        text += driver_text(c)
    rc, dout, derr = common.run_driver("hist", "\n".join(text) + "\n", timeout=3000)
    if rc != 0:
        chk.oblige("driver-run:hist", False, derr[-2000:]); return
    pred, cur = {}, None
    for l in dout.split("\n"):
        if l.startswith("case "):
            cur = l.split(" ")[1]; pred[cur] = []
        elif cur is not None and l:
            pred[cur].append(l)
    stat = {"ops": 0, "open": 0, "write": 0, "close": 0, "update": 0, "rename": 0, "removeOld": 0, "removeAll": 0, "age": 0,
            "abandon": 0, "big_status_writes": 0, "same_second_cases": 0, "glob_name_cases": 0, "op_errors": {}}
    dis = 0
    for c in cases:
        r = results.get(c["id"])
        if r is None:
            chk.oblige("harness-run:no-result:" + c["id"], False, ""); continue
        if r.get("panic"):
            chk.violation("C06:panic", "history store panicked: " + r["panic"][:300], {"case": c}); continue
        spec = hist.Spec(c)
        ans = r["answers"] or []
        cls_all = input_class(c, len(c["ops"]))
        stat["same_second_cases"] += "same-second" in cls_all; stat["glob_name_cases"] += "glob-meta" in cls_all
        if cls_all != "plain":
            chk.nontrivial.add(c["id"])
        for i, o in enumerate(c["ops"]):
            stat["ops"] += 1; stat[o["op"]] = stat.get(o["op"], 0) + 1; stat["big_status_writes"] += bool(o.get("big"))
            if i >= len(ans): break
            a = ans[i]
            if a.get("err"):
                stat["op_errors"][a["err"]] = stat["op_errors"].get(a["err"], 0) + 1
            spec.apply(o)
            chk.evaluations += 1
            if a.get("skip"):
                continue            # no query after this operation (the next one follows at once)
            for sig, detail in spec.check(a, i):
                chk.violation("C06:%s:%s" % (sig, input_class(c, i)), "%s (after op %d %s)" % (detail, i, json.dumps(o)),
                              {"case": c, "op_index": i, "answer": a})
                break
            m = pred.get(c["id"], [])
            if i < len(m) and m[i] != impl_line(c, a):
                dis += 1; chk.disagreements += 1
                if dis <= 3:
                    chk.oblige("correspondence:hist:%s@%d" % (c["id"], i), False,
                               "op %s\nmodel=%s\nimpl =%s\ncase=%s" % (json.dumps(o), m[i], impl_line(c, a), json.dumps(c)))
                break
    chk.disagreements_checked = chk.disagreements
    stat["glob_stream"] = glob_stream(chk, binp) if not replay else {}
    if dis == 0:
        chk.oblige("correspondence:hist (after every operation: every lookup, latest and recent answer for every DAG, and the file count: model = implementation)", True)
    chk.stats = dict(chk.stats or {}, **stat)
    chk.samples = [{"dags": c["dags"], "ops": c["ops"][:6]} for c in cases[:2]]
    chk.rule = ("op sequences (8-40 ops) over 2-4 DAG files from a name pool with spaces, dots, glob metacharacters, shared prefixes, the _c "
                "suffix, UTF-8; start times same ms / same second / same minute / around midnight / spread; concurrent recorders on "
                "different DAGs; after EVERY op all lookups (<=13 ids), latest and recent(1,2,5) for all DAGs are compared with the "
                "model and checked against an independent reference spec (append-only log of runs per DAG); evaluations = ops; "
                "non-trivial = case with glob-meta names, same-second starts or a rename")
