"""C01 / C10 — the retry of a recorded run through the REAL commands `start` and `retry --req=<id>` (package cmd).

The scheduler-family streams (sched.run_stream, p_c10) hand the recorded node table to NewExecutionGraphForRetry themselves; none
of them runs the command-line glue of `retry` (cmd/retry.go): the look-up of the recorded run under the path given on the command
line, dag.Load of the CURRENT file with the recorded parameters, and the agent started with RetryTarget = the record.  This leg
does: every case is a private HOME, a DAG of 4 `sh` steps that append one line "<step> <tag>" per execution to a trace file, one
step gated on a FLAG file (fails in run 1; the FLAG is created before the retry), and then, each in a process of its own
(harness go/harness/retrycmd: `--cli` = cmd hook VerifExecute = rootCmd.Execute; `--hist` = the REAL history store reads the
records back):   start -q -p alpha <path>   ->   [edit the file]   ->   touch FLAG   ->   retry --req=<id of run 1> <path'>.

  shape   branch: a; b(gate) <- a; c <- b; d <- a         chain: a; b <- a; c(gate) <- b; d <- c
          first : a(gate); b <- a; c <- a; d <- b, c
  variant plain            the file unchanged, absolute path / relative path (cwd = the dags directory)
          edited-definition the DAG FILE IS EDITED between run and retry (every command of the edited file carries the tag v2):
                            commands (only the commands), reorder-rev / reorder-rot (the same steps listed in another order),
                            drop-append (first step dropped, a new last step appended: the count is unchanged), rename (the gated
                            step gets another name)
          symlinked-path    start AND retry through the same path that contains a symbolic link: linkdir (the dags directory is a
                            link), linkfile (the file is a link to a file of another name), linkmid (a link higher up: cur -> v1)
          cross-path        start through the real path and retry through the link, and vice versa

WHAT THE UNCHANGED CODE DOES (established with this leg, `python3 lib/x_retry_cmd.py --explore`):
  * the status record carries the steps (Node.Step = the dag.Step: name, command, args, depends, …); `retry` loads the CURRENT file
    only for the DAG-level settings (and to have a DAG at all: a file that no longer loads refuses the retry) and builds the graph
    from the RECORDED nodes: after any of the edits above it executes the recorded commands (tag v1) of exactly the steps that did
    not complete plus their downstream steps, in the recorded dependency order; the new record carries the recorded steps again.
  * the history key is the path string as given (filepath.Abs, no link resolution) in `start` (dag.Load -> DAG.Location) and in
    `retry` alike: start and retry through the SAME linked path work; through two different spellings of the same file the retry
    is refused ("request id not found": nothing executed, nothing recorded, run 1 untouched).  A DAG's identity being its path as
    spelled is how the whole tool works (status, history, socket), so a clean refusal is accepted for cross-path; a retry that is
    NOT refused there must be a correct one.

MONITOR (Python; from the trace and the records read with the real history store; independent of the Lean model):
  C10  retry-refused-or-not-recorded · retry-does-not-terminate · recorded-run-overwritten · step-not-re-executed ·
       completed-step-executed-again · step-outside-recorded-run-executed · step-executed-twice · order ·
       step-of-current-definition-executed · recorded-steps-replaced · kept-step-result-changed · re-executed-step-not-finished ·
       params-differ
  C01  (run 1 and the retry run; `depends` of the definition the run actually used = the steps its own record carries)
       dependent-started-although-dependency-never-succeeded · dependent-started-before-dependency-finished
Signature  <prop>:retry-cmd:<clause>:<variant>.   Replay case: {"retry_cmd_case": {"shape","edit","layout","start_via","retry_via"}}.
Uses no PRNG (the sequences of the other streams stay what they were).
"""
import json, os, shutil, signal, subprocess, sys, tempfile, time
from concurrent.futures import ThreadPoolExecutor
import common

DROP_ENV = ("BLACKDAGGER_", "XDG_")
CLI_TIMEOUT = 40

SHAPES = {
    "branch": [("a", [], 0), ("b", ["a"], 1), ("c", ["b"], 0), ("d", ["a"], 0)],
    "chain": [("a", [], 0), ("b", ["a"], 0), ("c", ["b"], 1), ("d", ["c"], 0)],
    "first": [("a", [], 1), ("b", ["a"], 0), ("c", ["a"], 0), ("d", ["b", "c"], 0)],
}
EDITS = ["commands", "reorder-rev", "reorder-rot", "drop-append", "rename"]
LAYOUTS = ["linkdir", "linkfile", "linkmid"]


def variant_of(c):
    if c.get("edit"):
        return "edited-definition"
    if c["start_via"] != c["retry_via"]:
        return "cross-path"
    if c["layout"] != "plain" and c["start_via"] == "link":
        return "symlinked-path"
    return "plain"


def cases_for(tier):
    def mk(shape, edit=None, layout="plain", sv="real", rv=None):
        return {"shape": shape, "edit": edit, "layout": layout, "start_via": sv, "retry_via": rv or sv}
    cs = [mk("branch"), mk("chain"), mk("first"), mk("branch", sv="rel"), mk("chain", sv="rel")]
    if tier == "quick":
        cs += [mk("branch", e) for e in EDITS] + [mk("chain", "drop-append"), mk("chain", "reorder-rot"), mk("first", "commands"),
                                                  mk("first", "rename")]
        cs += [mk("branch", None, "linkdir", "link"), mk("branch", None, "linkfile", "link"), mk("chain", None, "linkmid", "link"),
               mk("first", None, "linkdir", "link")]
        cs += [mk("branch", None, "linkdir", "real", "link"), mk("branch", None, "linkdir", "link", "real"),
               mk("chain", None, "linkfile", "link", "real")]
    else:
        cs += [mk(s, e) for s in SHAPES for e in EDITS]
        cs += [mk(s, None, l, "link") for s in SHAPES for l in LAYOUTS]
        cs += [mk(s, None, l, a, b) for s in ("branch", "chain") for l in LAYOUTS for a, b in (("real", "link"), ("link", "real"))]
        cs += [mk("branch", e, "linkdir", "link") for e in ("commands", "drop-append")]
    for i, c in enumerate(cs):
        c["id"] = "rc%d" % i
    return cs


# ------------------------------------------------------------------ the definition, as written and as edited

def edited(steps, edit):
    """steps = [(name, depends, gated)] -> the edited list (the count is unchanged)"""
    if edit == "commands":
        return list(steps)
    if edit == "reorder-rev":
        return list(reversed(steps))
    if edit == "reorder-rot":
        return steps[1:] + steps[:1]
    if edit == "drop-append":
        gone = steps[0][0]
        rest = [(n, [d for d in deps if d != gone], g) for n, deps, g in steps[1:]]
        return rest + [("e", [steps[-1][0]], 0)]
    if edit == "rename":
        old = [n for n, _, g in steps if g][0]
        return [((n + "x") if n == old else n, [(d + "x") if d == old else d for d in deps], g) for n, deps, g in steps]
    raise ValueError(edit)


def dag_text(steps, work, tag):
    L = ["params: dflt", "steps:"]
    for n, deps, g in steps:
        L += ["  - name: %s" % n, "    command: sh %s %s %s" % (os.path.join(work, "gate.sh" if g else "mark.sh"), n, tag)]
        if deps:
            L.append("    depends: [%s]" % ", ".join(deps))
    return "\n".join(L) + "\n"


def layout_paths(home, layout):
    """-> (real path of the file, the path containing a link (or None), the dags directory (real))"""
    if layout == "plain":
        d = os.path.join(home, "dags"); os.makedirs(d)
        return os.path.join(d, "rc.yaml"), None, d
    if layout == "linkdir":
        d = os.path.join(home, "checkout"); os.makedirs(d)
        os.symlink(d, os.path.join(home, "dags"))
        return os.path.join(d, "rc.yaml"), os.path.join(home, "dags", "rc.yaml"), d
    if layout == "linkfile":
        d = os.path.join(home, "dags"); os.makedirs(d); s = os.path.join(home, "store"); os.makedirs(s)
        os.symlink(os.path.join("..", "store", "rc_real.yaml"), os.path.join(d, "rc.yaml"))
        return os.path.join(s, "rc_real.yaml"), os.path.join(d, "rc.yaml"), d
    if layout == "linkmid":
        d = os.path.join(home, "v1", "dags"); os.makedirs(d)
        os.symlink("v1", os.path.join(home, "cur"))
        return os.path.join(d, "rc.yaml"), os.path.join(home, "cur", "dags", "rc.yaml"), d
    raise ValueError(layout)


# ------------------------------------------------------------------ one case through the real commands

def _cli(binp, args, env, cwd, timeout=CLI_TIMEOUT):
    p = subprocess.Popen([binp, "--cli"] + args, env=env, cwd=cwd, stdout=subprocess.PIPE, stderr=subprocess.PIPE,
                         start_new_session=True)
    try:
        o, e = p.communicate(timeout=timeout)
        return p.returncode, (o + e).decode("utf-8", "replace"), False
    except subprocess.TimeoutExpired:
        try: os.killpg(p.pid, signal.SIGKILL)
        except OSError: pass
        p.kill(); o, e = p.communicate()
        return -9, (o + e).decode("utf-8", "replace"), True


def _hist(binp, env, home, dags, files):
    q = json.dumps({"dags": dags, "data": os.path.join(home, "data"), "suspend": os.path.join(home, "suspend"), "files": files})
    p = subprocess.run([binp, "--hist", q], env=env, cwd=home, stdout=subprocess.PIPE, stderr=subprocess.PIPE, timeout=60)
    try:
        return json.loads(p.stdout.decode().strip().splitlines()[-1])
    except Exception:
        return {"harness_err": (p.stdout + p.stderr).decode("utf-8", "replace")[-600:]}


def _trace(work):
    try:
        return [tuple(l.split()) for l in open(os.path.join(work, "trace")).read().splitlines() if len(l.split()) == 2]
    except OSError:
        return []


def run_case(binp, c):
    home = tempfile.mkdtemp(prefix="verif-retrycmd-")
    res = {"id": c.get("id", "replay")}
    try:
        work = os.path.join(home, "work"); os.makedirs(work)
        for d in ("data", "logs", "suspend", "config"):
            os.makedirs(os.path.join(home, d))
        open(os.path.join(work, "mark.sh"), "w").write('echo "$1 $2" >> "$(dirname "$0")/trace"\n')
        open(os.path.join(work, "gate.sh"), "w").write('echo "$1 $2" >> "$(dirname "$0")/trace"\ntest -f "$(dirname "$0")/FLAG"\n')
        real, link, dags = layout_paths(home, c["layout"])
        steps = SHAPES[c["shape"]]
        open(real, "w").write(dag_text(steps, work, "v1"))
        env = {k: v for k, v in os.environ.items() if not k.startswith(DROP_ENV)}
        env.update(HOME=home, BLACKDAGGER_DAGS_DIR=dags, BLACKDAGGER_WORK_DIR=home, BLACKDAGGER_LOG_DIR=os.path.join(home, "logs"),
                   BLACKDAGGER_BASE_CONFIG=os.path.join(home, "config", "base.yaml"), BLACKDAGGER_DATA_DIR=os.path.join(home, "data"),
                   BLACKDAGGER_SUSPEND_FLAGS_DIR=os.path.join(home, "suspend"), BLACKDAGGER_ADMIN_LOG_DIR=os.path.join(home, "logs", "admin"))

        def arg(via):
            if via == "real": return real, home
            if via == "link": return link, home
            if via == "rel": return os.path.basename(real), os.path.dirname(real)
            raise ValueError(via)
        cands = [real] + ([link] if link else [])
        cands += [p for p in {os.path.realpath(x) for x in cands} if p not in cands]
        res["paths"] = {"real": real, "link": link}

        # ---- run 1
        a1, cwd1 = arg(c["start_via"])
        rc1, out1, to1 = _cli(binp, ["start", "-q", "-p", "alpha", a1], env, cwd1)
        res["rc1"], res["timeout1"], res["trace1"] = rc1, to1, _trace(work)
        h1 = _hist(binp, env, home, dags, cands)
        recs1 = [(p, r) for p, l in (h1.get("runs") or {}).items() for r in l]
        if len(recs1) != 1:
            res["harness_err"] = "run 1 left %d records (%s) %s" % (len(recs1), h1.get("harness_err") or h1.get("panic") or "", out1[-400:])
            return res
        res["rec1_path"], res["rec1"] = recs1[0]
        req1 = res["rec1"]["req"]

        # ---- the edit, the FLAG, the retry
        if c.get("edit"):
            open(real, "w").write(dag_text(edited(steps, c["edit"]), work, "v2"))
        open(os.path.join(work, "FLAG"), "w").close()
        n1 = len(res["trace1"])
        a2, cwd2 = arg(c["retry_via"])
        rc2, out2, to2 = _cli(binp, ["retry", "--req=" + req1, a2], env, cwd2)
        res["rc2"], res["timeout2"], res["out2"] = rc2, to2, out2[-500:]
        res["trace2"] = _trace(work)[n1:]
        h2 = _hist(binp, env, home, dags, cands)
        seen, res["rec1_after"], res["rec2"], res["rec2_path"], extra = set(), None, None, None, 0
        for p, l in (h2.get("runs") or {}).items():
            for r in l:
                if r["req"] == req1:
                    res["rec1_after"] = r
                elif r["req"] not in seen:
                    seen.add(r["req"])
                    if res["rec2"] is None: res["rec2"], res["rec2_path"] = r, p
                    else: extra += 1
        res["extra_records"] = extra
        return res
    except Exception as e:                                   # a harness problem, never a verdict
        res["harness_err"] = "%s: %s" % (type(e).__name__, e)
        return res
    finally:
        shutil.rmtree(home, ignore_errors=True)


# ------------------------------------------------------------------ the monitor

def _nodes(rec):
    return {n["name"]: n for n in (rec or {}).get("nodes") or []}


def _stepsig(rec):
    return sorted((n["name"], n.get("command") or "", tuple(n.get("args") or []), tuple(n.get("depends") or [])) for n in (rec or {}).get("nodes") or [])


def c01_clauses(trace, rec, prior):
    """trace = [(step, tag)] in start order; rec = the run's own record (its nodes carry the steps the run used);
       prior = name -> status recorded before this run began ({} for a fresh run).  -> [(clause, detail)]"""
    out = []
    used = _nodes(rec)
    names = [n for n, _ in trace]
    for i, (n, tag) in enumerate(trace):
        for d in (used.get(n) or {}).get("depends") or []:
            before = d in names[:i]
            fin = (used.get(d) or {}).get("status") == "finished"
            if before and fin:
                continue
            if d not in names and prior.get(d) == "finished" and fin:
                continue                                     # succeeded in the recorded run and kept
            if d in names and not before:
                out.append(("dependent-started-before-dependency-finished",
                            "step %s (depends: %s) started before %s was executed in this run; trace %s" % (n, d, d, trace)))
            else:
                out.append(("dependent-started-although-dependency-never-succeeded",
                            "step %s (command tag %s, depends: %s) was started although %s %s; trace of the run %s" % (
                                n, tag, d, d,
                                ("was not executed in this run and its recorded state before the run was %r" % prior.get(d, "absent from the recorded run"))
                                if d not in names else ("was executed but is recorded %r" % (used.get(d) or {}).get("status")), trace)))
    return out


def judge(c, r):
    """-> {"C01": [(clause, detail)], "C10": [...]}, info"""
    v = {"C01": [], "C10": []}
    info = {"refused": False}
    rec1, rec2 = r["rec1"], r.get("rec2")
    n1 = _nodes(rec1)
    v["C01"] += c01_clauses(r["trace1"], rec1, {})
    if r.get("timeout2"):
        v["C10"].append(("retry-does-not-terminate", "`retry` did not end within %d s; trace %s" % (CLI_TIMEOUT, r["trace2"])))
        return v, info
    untouched = r.get("rec1_after") is not None and [(n["name"], n["status"], n["started"], n["finished"]) for n in r["rec1_after"]["nodes"]] == \
        [(n["name"], n["status"], n["started"], n["finished"]) for n in rec1["nodes"]] and r["rec1_after"]["status"] == rec1["status"]
    if r["rc2"] != 0 or rec2 is None:
        info["refused"] = True
        clean = untouched and not r["trace2"] and rec2 is None
        if not (variant_of(c) == "cross-path" and clean):
            v["C10"].append(("retry-refused-or-not-recorded",
                             "`retry --req=%s %s` (run 1 started through %s; recorded under %s) ended rc=%s, new record: %s, executed %s; output: %s" % (
                                 rec1["req"], c["retry_via"], c["start_via"], r.get("rec1_path"), r["rc2"], "none" if rec2 is None else rec2["req"],
                                 r["trace2"], r.get("out2", "")[-300:])))
        if rec2 is None:
            v["C01"] += c01_clauses(r["trace2"], None, {})
            return v, info
    if not untouched:
        v["C10"].append(("recorded-run-overwritten", "the record of run 1 (%s) is gone or changed after the retry: %s" % (rec1["req"], r.get("rec1_after"))))
    if r.get("extra_records"):
        v["C10"].append(("retry-recorded-more-than-once", "%d further records besides the retry's" % r["extra_records"]))
    # what had to be executed: the steps that did not complete successfully in run 1 and everything downstream (RECORDED definition)
    bad = {n for n, nd in n1.items() if nd["status"] not in ("finished", "skipped")}
    E, grew = set(bad), True
    while grew:
        grew = False
        for n, nd in n1.items():
            if n not in E and any(d in E for d in nd.get("depends") or []):
                E.add(n); grew = True
    names = [n for n, _ in r["trace2"]]
    info["expected"], info["executed"] = sorted(E), names
    for n in sorted(E):
        if n not in names:
            v["C10"].append(("step-not-re-executed", "step %s (recorded %r in run 1, or downstream of such a step) was not executed by the retry; executed %s" % (n, n1[n]["status"], r["trace2"])))
    for n in sorted(set(names)):
        if n not in n1:
            v["C10"].append(("step-outside-recorded-run-executed", "the retry executed %s, which is no step of the recorded run %s; trace %s" % (n, sorted(n1), r["trace2"])))
        elif n not in E:
            v["C10"].append(("completed-step-executed-again", "step %s finished in run 1 and has no unfinished upstream step, yet the retry executed it; trace %s" % (n, r["trace2"])))
        if names.count(n) > 1:
            v["C10"].append(("step-executed-twice", "the retry executed %s %d times; trace %s" % (n, names.count(n), r["trace2"])))
    for i, n in enumerate(names):
        for d in (n1.get(n) or {}).get("depends") or []:
            if d in E and d not in names[:i]:
                v["C10"].append(("order", "the retry started %s before its recorded dependency %s (which had to be re-executed); trace %s" % (n, d, r["trace2"])))
    for n, tag in r["trace2"]:
        if tag != "v1":
            v["C10"].append(("step-of-current-definition-executed", "the retry executed step %s with the command of the CURRENT file (tag %s), not the recorded one (v1); trace %s" % (n, tag, r["trace2"])))
            break
    n2 = _nodes(rec2)
    if _stepsig(rec2) != _stepsig(rec1):
        v["C10"].append(("recorded-steps-replaced", "the retry's record carries other steps than the recorded run: %s  vs recorded %s" % (_stepsig(rec2), _stepsig(rec1))))
    for n, nd in n1.items():
        m = n2.get(n)
        if n not in E and (m is None or (m["status"], m["started"], m["finished"]) != (nd["status"], nd["started"], nd["finished"])):
            v["C10"].append(("kept-step-result-changed", "step %s completed in run 1 (%s %s..%s) but the retry's record says %s" % (
                n, nd["status"], nd["started"], nd["finished"], m and (m["status"], m["started"], m["finished"]))))
        if n in E and n in names and (m is None or m["status"] != "finished"):
            v["C10"].append(("re-executed-step-not-finished", "step %s was re-executed with the FLAG present but is recorded %s" % (n, m and m["status"])))
    if rec2["status"] != "finished" and not any(k == "re-executed-step-not-finished" for k, _ in v["C10"]) and set(names) >= E:
        v["C10"].append(("re-executed-step-not-finished", "every step ended well but the retry run is recorded %r" % rec2["status"]))
    if rec2["params"] != rec1["params"]:
        v["C10"].append(("params-differ", "recorded params %r, the retry's %r" % (rec1["params"], rec2["params"])))
    if rec2["req"] == rec1["req"]:
        v["C10"].append(("retry-refused-or-not-recorded", "the retry has the request id of run 1"))
    v["C01"] += c01_clauses(r["trace2"], rec2, {n: nd["status"] for n, nd in n1.items()})
    return v, info


# ------------------------------------------------------------------ the stream

def stream(chk, prop, replay_case=None):
    binp, out = common.build_harness("retrycmd")
    if not binp:
        chk.oblige("harness-build:retrycmd", False, out[-3000:]); return
    chk.oblige("harness-build:retrycmd", True)
    t0 = time.time()
    cases = [replay_case] if replay_case else cases_for(chk.tier)
    with ThreadPoolExecutor(max_workers=8) as ex:
        results = list(ex.map(lambda c: run_case(binp, c), cases))
    stat = {"cases": len(cases), "by_variant": {}, "refused_cross_path": 0, "re_executed_total": 0, "kept_total": 0, "harness_err": 0}
    carried = True
    for c, r in zip(cases, results):
        if "harness_err" in r:                               # once more, alone, before it counts
            r = run_case(binp, c)
        if "harness_err" in r:
            stat["harness_err"] += 1
            chk.oblige("retry-cmd:harness-run:%s" % c.get("id", "replay"), False, r["harness_err"]); continue
        var = variant_of(c)
        chk.evaluations += 1
        stat["by_variant"][var] = stat["by_variant"].get(var, 0) + 1
        # sanity of the experiment: run 1 is what it was meant to be and its record carries the steps as written
        want = sorted((n, "sh", (os.path.basename("gate.sh" if g else "mark.sh"), n, "v1"), tuple(d)) for n, d, g in SHAPES[c["shape"]])
        got = sorted((n, cm, (os.path.basename(a[0]),) + tuple(a[1:]) if a else (), d) for n, cm, a, d in _stepsig(r["rec1"]))
        if got != want or r["rec1"]["status"] != "failed":
            carried = False
            chk.oblige("retry-cmd:run-1-record-carries-the-steps-as-written:%s" % c["id"], False, "record %s status %s, written %s" % (got, r["rec1"]["status"], want))
            continue
        v, info = judge(c, r)
        if info.get("refused") and var == "cross-path" and not v["C10"]:
            stat["refused_cross_path"] += 1
        stat["re_executed_total"] += len(info.get("executed") or []); stat["kept_total"] += 4 - len(info.get("expected") or [])
        chk.nontrivial.add(json.dumps(["retry-cmd", c["shape"], c.get("edit"), c["layout"], c["start_via"], c["retry_via"]]))
        for clause, detail in v.get(prop, []):
            cc = {k: c[k] for k in ("shape", "edit", "layout", "start_via", "retry_via")}
            chk.violation("%s:retry-cmd:%s:%s" % (prop, clause, var),
                          "real `start` then `retry --req` (%s%s; start via %s, retry via %s): %s" % (
                              c["shape"], (", file edited: " + c["edit"]) if c.get("edit") else "", c["start_via"] if c["layout"] == "plain" else c["layout"] + "/" + c["start_via"],
                              c["retry_via"], detail),
                          {"retry_cmd_case": cc, "trace_run1": r["trace1"], "trace_retry": r["trace2"],
                           "run1": {n: nd["status"] for n, nd in _nodes(r["rec1"]).items()},
                           "retry": r.get("rec2") and {n: nd["status"] for n, nd in _nodes(r["rec2"]).items()}, "retry_rc": r.get("rc2")})
    if carried and not replay_case:
        chk.oblige("retry-cmd:run-1-record-carries-the-steps-as-written", True)
    stat["wall_s"] = round(time.time() - t0, 1)
    if isinstance(chk.stats, dict):
        chk.stats["retry_cmd"] = stat
    chk.rule = (chk.rule or "") + (" | retry-cmd leg: %d cases through the real `start` / `retry --req` commands (3 shapes of a 4-step DAG with a gated "
                                   "step; plain, file edited between run and retry (commands / reorder / drop+append / rename), paths with a symbolic "
                                   "link (directory, file, higher up), start and retry through different spellings)" % len(cases))
    return results


# ------------------------------------------------------------------ exploration (what the tree under check does, per case)

if __name__ == "__main__":
    binp, o = common.build_harness("retrycmd")
    if not binp:
        print(o); sys.exit(2)
    cs = cases_for("thorough" if "--all" in sys.argv else "quick")
    with ThreadPoolExecutor(max_workers=8) as ex:
        rs = list(ex.map(lambda c: run_case(binp, c), cs))
    for c, r in zip(cs, rs):
        if "harness_err" in r:
            print(c, "HARNESS", r["harness_err"]); continue
        v, info = judge(c, r)
        print("%-18s %-7s %-12s %-9s %s->%s  run1 %s  retry rc=%s %s  rec2=%s  %s" % (
            variant_of(c), c["shape"], c.get("edit") or "-", c["layout"], c["start_via"], c["retry_via"],
            " ".join("%s:%s" % (n, nd["status"][:4]) for n, nd in _nodes(r["rec1"]).items()), r["rc2"],
            " ".join("%s:%s" % t for t in r["trace2"]) or "(nothing executed)",
            r.get("rec2") and " ".join("%s:%s" % (n, nd["status"][:4]) for n, nd in _nodes(r["rec2"]).items()),
            {k: [x[0] for x in l] for k, l in v.items() if l} or "ok"))
