"""C02 in RETRY runs: the end-of-run clauses of C02 read off the FINAL state of a retry run.

   Stream: (1) ordinary runs of DAGs through the real scheduler give recorded per-step vectors (as in C10 / C03's
   retry stream: p_c10.retry_case over sched.gen_case, plus corpus/retry); on top of that, two-path shapes: a step V
   that depends on a KEPT root (short path, every step on it finished and not re-run) AND on a deeper step of a chain
   that is reset for the retry (long path below a step that failed with continueOn.failure, so that V and the chain were
   executed and are recorded `finished`); (2) the real NewExecutionGraphForRetry + Schedule retry them; in the retry
   run a re-run dependency of V FAILS (without continueOn.failure) or is SKIPPED (without continueOn.skipped), or
   everything succeeds.

   The judge (`judge`) is Python over the harness's events + final snapshot; it does not look at the Lean model nor at
   the Go-side monitors.  T := steps recorded failed / canceled / running / not started and everything downstream of one
   (they have no result to keep); kept := the others.  For a retry run that ended without having been stopped:
     * no step is left `not started` / `running`;
     * a step downstream of a dependency that is (finally) failed/canceled without continueOn.failure, or skipped
       without continueOn.skipped, was not executed in this run, is not labelled finished, and is labelled
       canceled/skipped;
     * a step whose dependencies all let it proceed was executed in this run (or skipped because its own precondition
       is unmet), or - if it is a kept step - carries its kept successful result unchanged;
     * the label of a step executed in this run is what its own outcome dictates."""
import copy, json, os
import common, sched

SIG = "C02:retry-run:"


def licensed(st, nd):
    return st == "finished" or (st == "failed" and nd["cf"]) or (st == "skipped" and nd["cs"])


def blocker(st, nd):
    return (st == "failed" and not nd["cf"]) or st == "canceled" or (st == "skipped" and not nd["cs"])


def pre_unmet(nd):
    """the step's own precondition is not met when it is due (sched.pre_unmet knows every way the generator writes one)"""
    f = getattr(sched, "pre_unmet", None)
    return f(nd) if f else (nd["pre"] == 2 or (nd["pre"] == 3 and nd.get("prev") == 2))


def _node(deps, cf=False, cs=False, limit=0, pre=0, fails=0):
    return {"deps": deps, "cf": cf, "cs": cs, "limit": limit, "pre": pre, "prev": 0, "fails": fails, "obeys": True, "sig": "", "rep": False}


def gen_two_path(rng, k):
    """-> (first-run case, plan for the retry run).  Names: K* kept path, P the step that fails with continueOn.failure
    in the first run, C* the chain below it, V the join of the short kept path and the long reset path, W below V."""
    a = rng.choice([1, 1, 1, 2])                    # length of the kept path (root .. last kept step)
    b = rng.choice([1, 2, 2, 3])                    # chain steps between P and V
    if rng.random() < 0.15:
        a, b = rng.choice([(2, 1), (3, 1), (2, 2)])  # control: the reset path is not the longer one
    names, deps = [], {}
    for i in range(a):
        names.append("K%d" % i); deps["K%d" % i] = ["K%d" % (i - 1)] if i else []
    p_below_kept = rng.random() < 0.25              # P itself hangs below the kept root: the long path is longer still
    names.append("P"); deps["P"] = ["K0"] if p_below_kept else []
    for i in range(b):
        names.append("C%d" % i); deps["C%d" % i] = ["C%d" % (i - 1)] if i else ["P"]
    vd = ["K%d" % (a - 1), "C%d" % (b - 1)]; rng.shuffle(vd)
    names.append("V"); deps["V"] = vd
    tail = rng.choice([0, 1, 1, 2])
    for i in range(tail):
        wd = ["V" if i == 0 else "W%d" % (i - 1)]
        if rng.random() < 0.4:
            wd.append("K0"); rng.shuffle(wd)
        names.append("W%d" % i); deps["W%d" % i] = wd
    if rng.random() < 0.4:
        names.append("X"); deps["X"] = ["K%d" % rng.randrange(a)]     # kept side branch: must keep its result
    order = names[:]; rng.shuffle(order)
    idx = {nm: i for i, nm in enumerate(order)}
    nodes = []
    for nm in order:
        nd = _node([idx[d] for d in deps[nm]])
        if nm == "P":
            nd["fails"], nd["cf"] = -1, True
            if rng.random() < 0.3:
                nd["limit"] = 1
        elif rng.random() < 0.2:
            nd["pre"] = 1
        if nm != "P" and rng.random() < 0.2:
            nd["cf"] = True
        if nm != "P" and rng.random() < 0.2:
            nd["cs"] = True
        nodes.append(nd)
    c = {"id": "t%d" % k, "nodes": nodes, "maxActive": rng.choice([0, 0, 1, 2]), "handlers": [rng.choice([0, 0, 1]) for _ in range(4)],
         "stopAfter": -1, "seed": rng.randrange(1 << 30), "dry": False}
    # the retry run
    r = rng.random()
    breaker = "C%d" % rng.randrange(b)
    plan = {"idx": idx, "breaker": None, "how": "all-succeed", "shape": "kept%d-reset%d%s" % (a, b + 1, "+" if p_below_kept else "")}
    if r < 0.45:
        plan.update(breaker=idx[breaker], how="fails")
    elif r < 0.75:
        plan.update(breaker=idx[breaker], how="skipped")
    elif r < 0.85:
        plan.update(breaker=idx["P"], how="skipped")     # the once failed step's precondition is unmet now
    return c, plan


def two_path_retry(rng, c, r, plan, k):
    snaps = r.get("snaps") or []
    if not snaps or not r.get("finished") or not snaps[-1].get("st"):
        return None
    s = snaps[-1]
    rc = copy.deepcopy(c)
    rc["id"] = "tr%d" % k
    rc.pop("ops", None)
    for nd in rc["nodes"]:
        nd["fails"] = 0
    P = rc["nodes"][plan["idx"]["P"]]
    P["fails"] = rng.choice([-1, -1, 0])
    if plan["breaker"] is not None:
        B = rc["nodes"][plan["breaker"]]
        if plan["how"] == "fails":
            B["limit"] = rng.choice([0, 0, 1]); B["fails"] = rng.choice([-1, B["limit"] + 1])
            if rng.random() < 0.85:
                B["cf"] = False
        else:
            fl = getattr(sched, "pre_flavour", None)
            B["pre"] = fl(rng, 2) if fl else 2       # unmet, in one of the ways the generator writes it
            if rng.random() < 0.85:
                B["cs"] = False
    rc["init"], rc["irc"], rc["idc"] = s["st"], s["rc"], s["dc"]
    rc["stopAfter"] = -1
    rc["handlers"] = [rng.choice([0, 1, 1, 2]) for _ in range(4)]
    rc["seed"] = rng.randrange(1 << 30)
    rc["killed_at"] = -1
    rc["shape"] = "two-path:%s:%s" % (plan["shape"], plan["how"])
    return rc


def in_T(c):
    n = len(c["nodes"])
    t = [c["init"][i] in ("failed", "canceled", "running", "not started") for i in range(n)]
    ch = True
    while ch:
        ch = False
        for i in range(n):
            if not t[i] and any(t[d] for d in c["nodes"][i]["deps"]):
                t[i] = ch = True
    return t


def judge(c, r, stat=None):
    """C02's end-of-run clauses on the final state of the retry run `r` of case `c`; -> [(signature, text)]"""
    out = []
    stat = stat if stat is not None else {}
    bump = lambda k: stat.__setitem__(k, stat.get(k, 0) + 1)
    nodes, n, init = c["nodes"], len(c["nodes"]), c["init"]
    ops = r.get("ops") or []
    if any(o == "stop" or o == "kill" or o.startswith("relstop") for o in ops):
        bump("stopped_retry_runs_not_judged"); return out
    if any(m.startswith("graph-rejected") for m in r.get("monitor") or []) or c.get("dry"):
        return out
    snaps = r.get("snaps") or []
    if r.get("panic"):
        return [(SIG + "panic", "the retry run panicked: %s" % r["panic"])]
    if not snaps or not snaps[-1].get("st"):
        return out
    final = snaps[-1]["st"]
    term = lambda s: s in ("finished", "failed", "canceled", "skipped")
    if r.get("hang") or not r.get("finished"):
        for i in range(n):
            if final[i] == "not started" and all(term(final[d]) for d in nodes[i]["deps"]):
                out.append((SIG + "run-does-not-end:step-left-not-started-with-all-dependencies-final",
                            "node=%d recorded=%s: the retry run does not end; every dependency of the step is final %s" % (
                                i, init[i], [final[d] for d in nodes[i]["deps"]])))
                break
        return out
    starts = [0] * n
    for e in r.get("events") or []:
        if e.get("k") == "start" and 0 <= e.get("n", -1) < n:
            starts[e["n"]] += 1
    T = in_T(c)
    bump("judged_runs")
    for i in range(n):
        nd, st = nodes[i], final[i]
        if not term(st):
            out.append((SIG + "non-terminal-final-state", "node=%d status=%s recorded=%s" % (i, st, init[i])))
            continue
        bl = [d for d in nd["deps"] if blocker(final[d], nodes[d])]
        all_lic = all(licensed(final[d], nodes[d]) for d in nd["deps"])
        if bl:
            if st == init[i] and starts[i] == 0 and all(final[d] == init[d] and starts[d] == 0 for d in bl):
                # nothing of this happened in the retry run: the record already said so (kept steps below a kept
                # `skipped` one, or a record that is not the trace of one run)
                bump("blocked_as_recorded" if st in ("canceled", "skipped") else "inconsistency_inherited_from_record")
                if st in ("canceled", "skipped"):
                    bump("steps_downstream_of_blocker")
                continue
            bump("steps_downstream_of_blocker")
            d = bl[0]
            kind = final[d]
            ctx = "node=%d status=%s recorded=%s executions-in-this-run=%d dep=%d depstatus=%s deprecorded=%s dep-executions=%d" % (
                i, st, init[i], starts[i], d, kind, init[d], starts[d])
            if starts[i] != 0:
                out.append((SIG + "step-downstream-of-%s-dependency-executed" % kind, ctx))
            elif st == "finished":
                bump("stale_finished_downstream")
                out.append((SIG + "step-downstream-of-%s-dependency-reported-finished" % kind, ctx))
            elif st not in ("canceled", "skipped"):
                out.append((SIG + "step-downstream-of-%s-dependency-mislabelled" % kind, ctx))
            continue
        if not all_lic:
            continue
        unmet = pre_unmet(nd)
        if not T[i] and starts[i] == 0:
            bump("kept_steps")
            if st != init[i] or st not in ("finished", "skipped"):
                out.append((SIG + "kept-result-changed", "node=%d recorded=%s now=%s (not executed in this run)" % (i, init[i], st)))
            continue
        bump("steps_due")
        if unmet:
            if st != "skipped" or starts[i] != 0:
                out.append((SIG + "unmet-precondition-not-skipped", "node=%d status=%s executions=%d" % (i, st, starts[i])))
            continue
        if starts[i] == 0:
            out.append((SIG + "step-not-executed-although-its-dependencies-let-it-proceed",
                        "node=%d status=%s recorded=%s: a dependency of the step was reset and re-run (%s), the step has no result to keep, "
                        "all its dependencies let it proceed (%s), and it was not executed in the retry run" % (
                            i, st, init[i], [d for d in nd["deps"] if T[d]], [final[d] for d in nd["deps"]])))
            continue
        if nd["pre"] == 3 and nd.get("prev") not in (1, 2):
            continue            # met at the first evaluation, not at a later one: judged by the fresh-run stream
        want = "finished" if 0 <= nd["fails"] <= nd["limit"] else "failed"
        if st != want:
            out.append((SIG + "state-does-not-match-outcome", "node=%d status=%s want=%s (limit %d, fails first %d, executions %d)" % (
                i, st, want, nd["limit"], nd["fails"], starts[i])))
    return out


def build_cases(chk, binp):
    import p_c10
    rng = chk.rng
    q = chk.tier == "quick"
    n_two, n_gen = (120, 80) if q else (1200, 800)
    first, plans = [], {}
    for k in range(n_two):
        c, plan = gen_two_path(rng, k)
        first.append(c); plans[c["id"]] = plan
    for k in range(n_gen):
        c = sched.gen_case(rng, 800000 + k, 6); c["dry"] = False; c["stopAfter"] = -1 if rng.random() < 0.8 else c["stopAfter"]
        c.pop("slowDone", None); c.pop("repInt", None)
        for nd in c["nodes"]:
            nd["rep"] = False
            if nd["fails"] != 0 and rng.random() < 0.5:
                nd["cf"] = True            # failed-but-continue: descendants are recorded finished below a step that is reset
        first.append(c)
    res1 = sched.run_harness(binp, first)
    cases = []
    cdir = os.path.join(common.ROOT, "corpus", "retry")
    if os.path.isdir(cdir):
        for f in sorted(os.listdir(cdir)):
            cc = json.load(open(os.path.join(cdir, f))); cc["id"] = "corpus-" + f[:-5]; cc.pop("ops", None); cases.append(cc)
            # the same recorded vector, with each re-run step in turn failing / being skipped in the retry run
            T = in_T(cc)
            for j in [i for i in range(len(cc["nodes"])) if T[i]][:4]:
                for how in ("fails", "skipped"):
                    v = copy.deepcopy(cc); v["id"] = "%s-%s%d" % (cc["id"], how, j); v.pop("killed_at", None)
                    for nd in v["nodes"]:
                        nd["fails"] = 0
                    if how == "fails":
                        v["nodes"][j]["fails"] = -1; v["nodes"][j]["cf"] = False
                    else:
                        v["nodes"][j]["pre"] = 2; v["nodes"][j]["cs"] = False
                    v["shape"] = "corpus:" + how
                    cases.append(v)
    for k, c in enumerate(first):
        r = res1.get(c["id"])
        if not r or r.get("crash"):
            continue
        if c["id"] in plans:
            rc = two_path_retry(rng, c, r, plans[c["id"]], k)
        else:
            rc = p_c10.retry_case(rng, c, r, 800000 + k)
            if rc:
                rc["stopAfter"] = -1
                if rng.random() < 0.5:
                    # bias towards a re-run step failing / being skipped in the retry run
                    T = in_T(rc)
                    cand = [i for i in range(len(rc["nodes"])) if T[i]]
                    if cand:
                        nd = rc["nodes"][rng.choice(cand)]
                        if rng.random() < 0.6:
                            nd["fails"] = -1
                        else:
                            nd["pre"] = 2
        if rc:
            cases.append(rc)
    return cases


def stream(chk, replay=None):
    import time
    t0 = time.time()
    binp, out = common.build_harness("sched")
    if not binp:
        chk.oblige("harness-build:sched", False, out[-3000:]); return
    if replay:
        rp = json.load(open(replay))
        c = rp["case"]["case"] if "case" in rp.get("case", {}) else rp["case"]
        if not c.get("init"):
            return
        cases = [c]
    else:
        cases = build_cases(chk, binp)
    results = sched.run_harness(binp, cases)
    stat = {"runs": 0, "two_path": 0, "breaker_fails": 0, "breaker_skipped": 0, "all_succeed": 0}
    for c in cases:
        r = results.get(c["id"])
        chk.evaluations += 1
        if r is None:
            chk.oblige("harness-run:retry:no-result:" + c["id"], False, ""); continue
        if r.get("crash"):
            chk.violation(SIG + "harness-process-crashed", "the scheduler crashed the process in a retry run: " + r["crash"][-300:], {"case": c})
            continue
        stat["runs"] += 1
        shape = c.get("shape", "")
        stat["two_path"] += shape.startswith("two-path")
        stat["breaker_fails"] += shape.endswith(":fails"); stat["breaker_skipped"] += shape.endswith(":skipped")
        stat["all_succeed"] += shape.endswith(":all-succeed")
        if any(x != "finished" for x in c["init"]) and any(nd["deps"] for nd in c["nodes"]):
            chk.nontrivial.add("retry" + json.dumps([c["nodes"], c["init"]], sort_keys=True))
        vs = judge(c, r, stat)
        if vs and any("run-does-not-end" in s or "non-terminal" in s for s, _ in vs):
            # judged against wall-clock patience: confirm on the case alone before it counts
            again = sched.run_harness(binp, [c], workers=1, quiet_ms=25).get(c["id"]) or {}
            keep = {s for s, _ in judge(c, again)} if again and not again.get("crash") else set()
            vs = [(s, w) for s, w in vs if s in keep or not ("run-does-not-end" in s or "non-terminal" in s)]
        for s, w in vs:
            final = (r.get("snaps") or [{}])[-1]
            chk.violation(s, "%s %s; recorded run: %s; after NewExecutionGraphForRetry: %s; final state of the retry run: %s" % (
                s, w, c["init"], r.get("st0"), final.get("st")),
                {"case": dict(c, ops=r["ops"]), "verdict": s + ":" + w, "st0": r.get("st0"), "final": final,
                 "events": (r.get("events") or [])[:200]})
    # the driver's retry mode predicts the reset vector and every quiescent snapshot of these runs (C10's obligation,
    # on this stream's cases); the verdicts above do not depend on it
    dis, rc_, derr = sched.batch_compare(cases, results)
    if rc_ != 0:
        chk.oblige("driver-run:sched:retry", False, derr[-2000:])
    persistent = []
    chk.disagreements += max(0, len(dis) - 8)
    for c in dis[:8]:
        chk.disagreements += 1
        why = None
        for attempt in range(3):
            rr = sched.run_harness(binp, [c], workers=1, quiet_ms=12 + 10 * attempt)[c["id"]]
            if rr.get("crash"):
                why = "crash"; break
            why = sched.compare(c, rr)
            if why is None:
                break
        chk.disagreements_checked += 1
        if why is not None:
            persistent.append((c, why))
    for c, why in persistent[:3]:
        chk.oblige("correspondence:retry:%s" % c["id"], False, why + "\ncase=" + json.dumps(c))
    if not persistent:
        chk.oblige("correspondence:retry (reset vector and every quiescent snapshot of the retry runs: model = implementation)", True)
    stat["persistent_disagreements"] = len(persistent)
    stat["wall_s"] = round(time.time() - t0, 1)
    chk.stats["retry_runs"] = stat
    chk.rule += ("; retry runs: recorded vectors of real runs (random DAGs as in C10, corpus/retry and its fail/skip variants, two-path "
                 "shapes: a join of a kept path of 1-3 steps and a chain of 2-4 steps below a step that failed with continueOn.failure) retried "
                 "by NewExecutionGraphForRetry + Schedule with a re-run dependency failing (45%), skipped (40%) or all succeeding")
