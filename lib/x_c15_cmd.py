"""C15 — the limit reaches the run through the REAL commands (config.Load -> resolver -> cfg.BaseConfig -> dag.Load -> agent ->
scheduler), in home-directory layouts as users have them.

The other C15 streams hand the limit to the scheduler (sched.run_stream), to dag.Load(base, file) (sched.yaml_stream) or to the
agent (p_c08.agent_level) directly.  None of them goes the way the limit of an installation really goes: `blackdagger start f`
calls config.Load(), whose resolver (internal/config/resolver.go, newResolver) decides WHICH directory is the configuration
directory, and with it which base.yaml is the base configuration of every DAG; dag.loadBaseConfig takes a base file that does not
exist for "no base configuration" and says nothing.  A resolver that looks in the wrong place therefore drops `maxActiveRuns: k`
silently and the scheduler launches every ready step at once.

Here the real binary (common.build_real_binary: `go build .` of the tree under check) runs `start <dag>` in a process of its own
with a private HOME, one process per case, the cases side by side.

  layout   what the HOME looks like                                              where the base configuration is
  -------  --------------------------------------------------------------------  ----------------------------------------
  legacy   ~/.blackdagger/ only                                                  ~/.blackdagger/base.yaml
  xdg      ~/.config/blackdagger/ only                                           ~/.config/blackdagger/base.yaml
  both     ~/.blackdagger/ AND ~/.config/blackdagger/ (the latter holds only     ~/.blackdagger/base.yaml
           the admin.yaml the --config help text points to)
  xdgenv   XDG_CONFIG_HOME=~/cfgroot, ~/cfgroot/blackdagger/ only                ~/cfgroot/blackdagger/base.yaml
  envhome  BLACKDAGGER_HOME=~/bdhome; ~/.blackdagger/ and ~/.config/blackdagger  ~/bdhome/base.yaml
           exist too (without a base.yaml)
  cfgkey   ~/.blackdagger/config.yaml says `baseConfig: ~/custom/base.yaml`      ~/custom/base.yaml
  envbase  BLACKDAGGER_BASE_CONFIG=~/custom/base.yaml; ~/.blackdagger/ exists    ~/custom/base.yaml
  flagcfg  --config ~/custom/admin.yaml that says `baseConfig:                   ~/custom/base.yaml
           ~/custom/base.yaml`; ~/.blackdagger/ exists too (without a base.yaml)

RESOLUTION RULES OF THE UNCHANGED TREE, established by experiment (`python3 lib/x_c15_cmd.py --explore`: a different limit in
every candidate base.yaml, six independent steps, the peak overlap tells which file was read) and agreeing with
newResolver / setupViper as read:
  1. BLACKDAGGER_HOME set            -> $BLACKDAGGER_HOME/base.yaml            (whatever else exists)
  2. else ~/.blackdagger exists      -> ~/.blackdagger/base.yaml               (the legacy directory WINS over an existing
                                        ~/.config/blackdagger, with or without a base.yaml in either of them)
  3. else                            -> ${XDG_CONFIG_HOME:-~/.config}/blackdagger/base.yaml
  4. a `baseConfig:` key in config.yaml of the directory of 1-3, or the environment variable BLACKDAGGER_BASE_CONFIG,
     overrides the default of 1-3.
  5. a base file that does not exist = no base configuration (no message): every ready step is launched at once.
  6. the DAG file's own `maxActiveRuns` wins over the base configuration's (larger or smaller); 0 / absent inherits.
  7. `--config FILE` is IGNORED by every command: root.go's initialize() calls viper.SetConfigFile(FILE), config.setupViper then
     calls viper.SetConfigName("config"), which clears the explicit file again (viper: SetConfigName sets configFile = ""), and
     ReadInConfig looks for config.yaml in the directory of 1-3.  A `baseConfig:` (and any other key) of FILE never arrives.
     This is a defect of the code (finding F51, known_findings.json; the layout `flagcfg` keeps showing it under its own
     signature C15:limit-from-base-configuration-not-respected:flagcfg-explicit-config-file-ignored).

THE MONITOR judges the PROPERTY, not rule 1-6: the user wrote `maxActiveRuns: k` in the place blackdagger uses for this layout
(the table above = where an installation of that layout keeps its base.yaml; for `both` that is the legacy directory, where a
legacy installation has it — the XDG directory of that layout has no base.yaml that could say anything else), so at every instant
at most k step commands may be executing.  Each step stamps `S <ns>` after its command started and `E <ns>` before it ends
(holding HOLD_MS in between); two stamped intervals that overlap ARE two commands executing together (load can only make the
stamped intervals shorter than the executions, never longer), so `peak > k` is a violation whatever the machine does; it is
re-run once all the same before it counts.  where = `base` (only the base configuration gives the limit), `dag` (only the DAG
file), `both` (DAG file: k, base configuration: another value — the DAG's own k is what the user configured for this DAG).

Signature: C15:limit-from-base-configuration-not-respected:<layout>   (where in {base, both}; flagcfg/base: see rule 7)
           C15:limit-from-dag-file-not-respected:<layout>             (where = dag)
Replay case: {"cmd_case": {"layout", "where", "k"}}.

(Rule 7 describes the tree BEFORE fix 5b01f18 / F51: since then `--config FILE` is honoured - config.Load sets the explicit file again after setupViper - and the `flagcfg` layout respects the limit.)
"""
import json, os, shutil, subprocess, sys, tempfile, time
from concurrent.futures import ThreadPoolExecutor
import common

LAYOUTS = ["legacy", "xdg", "both", "xdgenv", "envhome", "cfgkey", "envbase", "flagcfg"]
WHERES = ["base", "dag", "both"]
HOLD_MS = 300
DROP_ENV = ("BLACKDAGGER_", "XDG_")


def _mk(p, text=None):
    os.makedirs(os.path.dirname(p) if text is not None else p, exist_ok=True)
    if text is not None:
        open(p, "w").write(text)


def layout_setup(home, layout):
    """create the directories of the layout; -> (path of the base.yaml an installation of this layout uses, env additions, extra argv)"""
    env, argv = {}, []
    legacy, xdgd = os.path.join(home, ".blackdagger"), os.path.join(home, ".config", "blackdagger")
    if layout == "legacy":
        _mk(legacy); base = os.path.join(legacy, "base.yaml")
    elif layout == "xdg":
        _mk(xdgd); base = os.path.join(xdgd, "base.yaml")
    elif layout == "both":
        _mk(legacy); _mk(os.path.join(xdgd, "admin.yaml"), "port: 8090\n"); base = os.path.join(legacy, "base.yaml")
    elif layout == "xdgenv":
        root = os.path.join(home, "cfgroot"); _mk(os.path.join(root, "blackdagger"))
        env["XDG_CONFIG_HOME"] = root; base = os.path.join(root, "blackdagger", "base.yaml")
    elif layout == "envhome":
        _mk(legacy); _mk(xdgd); bd = os.path.join(home, "bdhome"); _mk(bd)
        env["BLACKDAGGER_HOME"] = bd; base = os.path.join(bd, "base.yaml")
    elif layout == "cfgkey":
        cu = os.path.join(home, "custom"); base = os.path.join(cu, "base.yaml"); _mk(cu)
        _mk(os.path.join(legacy, "config.yaml"), "baseConfig: %s\n" % base)
    elif layout == "envbase":
        _mk(legacy); cu = os.path.join(home, "custom"); base = os.path.join(cu, "base.yaml"); _mk(cu)
        env["BLACKDAGGER_BASE_CONFIG"] = base
    elif layout == "flagcfg":
        _mk(legacy); cu = os.path.join(home, "custom"); base = os.path.join(cu, "base.yaml")
        _mk(os.path.join(cu, "admin.yaml"), "baseConfig: %s\n" % base); argv = ["--config", os.path.join(cu, "admin.yaml")]
    else:
        raise ValueError(layout)
    return base, env, argv


def dag_text(nsteps, trace, dag_limit):
    L = []
    if dag_limit:
        L.append("maxActiveRuns: %d" % dag_limit)
    L.append("steps:")
    for i in range(nsteps):
        L += ["  - name: s%d" % i, "    command: sh", "    script: |",
              '      echo "S $(date +%%s%%N) s%d" >> %s' % (i, trace),
              "      sleep %.3f" % (HOLD_MS / 1000.0),
              '      echo "E $(date +%%s%%N) s%d" >> %s' % (i, trace)]
    return "\n".join(L) + "\n"


def peak_of(trace_text):
    ev = []
    for l in trace_text.splitlines():
        f = l.split()
        if len(f) == 3 and f[0] in "SE" and f[1].isdigit():
            ev.append((int(f[1]), -1 if f[0] == "E" else 1))
    ev.sort()                                            # at equal stamps the end comes first
    act = peak = 0
    for _, d in ev:
        act += d; peak = max(peak, act)
    return peak, sum(1 for e in ev if e[1] == 1), sum(1 for e in ev if e[1] == -1)


def clean_env(home):
    e = {k: v for k, v in os.environ.items() if not k.startswith(DROP_ENV)}
    e["HOME"] = home
    return e


def run_case(binp, c, extra_files=None, nsteps=None, envadd2=None):
    """one real `start` in a private HOME -> result dict"""
    home = tempfile.mkdtemp(prefix="verif-c15cmd-")
    try:
        base, envadd, argv = layout_setup(home, c["layout"])
        k = c["k"]
        base_limit = {"base": k, "dag": 0, "both": 3 - k}[c["where"]]      # both: the base says the OTHER value of {1,2}
        dag_limit = {"base": 0, "dag": k, "both": k}[c["where"]]
        if base_limit:
            _mk(base, "maxActiveRuns: %d\n" % base_limit)
        for p, t in (extra_files or {}).items():
            _mk(os.path.join(home, p), t.replace("%HOME%", home))
        work = os.path.join(home, "work"); _mk(work)
        trace = os.path.join(work, "trace.log")
        n = nsteps or k + 2
        f = os.path.join(work, "c15cmd.yaml")
        open(f, "w").write(dag_text(n, trace, dag_limit))
        env = dict(clean_env(home), **envadd)
        env.update({a: b.replace("%HOME%", home) for a, b in (envadd2 or {}).items()})
        t0 = time.time()
        try:
            p = subprocess.run([binp] + argv + ["start", f], env=env, cwd=work, stdout=subprocess.PIPE, stderr=subprocess.STDOUT,
                               timeout=90, start_new_session=True)
            rc, out = p.returncode, p.stdout.decode(errors="replace")
        except subprocess.TimeoutExpired as e:
            rc, out = -9, "timeout " + (e.stdout or b"").decode(errors="replace")
        tr = open(trace).read() if os.path.exists(trace) else ""
        peak, ns, ne = peak_of(tr)
        return {"rc": rc, "peak": peak, "starts": ns, "ends": ne, "nsteps": n, "wall": round(time.time() - t0, 2),
                "base": os.path.relpath(base, home), "base_limit": base_limit, "dag_limit": dag_limit, "out": out[-600:], "trace": tr}
    finally:
        shutil.rmtree(home, ignore_errors=True)


def judge(c, r):
    """-> None | "incomplete" | signature"""
    if r["rc"] != 0 or r["starts"] != r["nsteps"] or r["ends"] != r["nsteps"]:
        return "incomplete"
    if r["peak"] > c["k"]:
        kind = "dag-file" if c["where"] == "dag" else "base-configuration"
        return "C15:limit-from-%s-not-respected:%s" % (kind, c["layout"] + ("-explicit-config-file-ignored" if c["layout"] == "flagcfg" and c["where"] == "base" else ""))
    return None


def run(chk, prop, only=None):
    t0 = time.time()
    binp, out = common.build_real_binary()
    if not binp:
        chk.oblige("real-binary-build", False, out[-2000:]); return
    chk.oblige("real-binary-build", True)
    cases = [only] if only else [{"layout": l, "where": w, "k": k} for l in LAYOUTS for w in WHERES for k in (1, 2)]
    with ThreadPoolExecutor(max_workers=min(len(cases), max(4, (os.cpu_count() or 4)))) as ex:
        res = list(ex.map(lambda c: run_case(binp, c), cases))
    peaks, incomplete = {}, []
    for c, r in zip(cases, res):
        v = judge(c, r)
        if v is not None:                                 # re-run alone (no neighbours) before it counts
            r = run_case(binp, c); v = judge(c, r)
        chk.evaluations += 1
        key = "%s/%s/k%d" % (c["layout"], c["where"], c["k"])
        peaks[key] = r["peak"]
        if v == "incomplete":
            incomplete.append("%s rc=%s starts=%d ends=%d of %d: %s" % (key, r["rc"], r["starts"], r["ends"], r["nsteps"], r["out"][-300:]))
        elif v:
            chk.violation(v, "layout %s, maxActiveRuns: %d written in %s%s: `start` of a DAG of %d independent steps had %d step commands executing "
                          "at the same time (trace: %s)" % (c["layout"], c["k"],
                                                            {"base": "~/" + r["base"], "dag": "the DAG file", "both": "the DAG file (base ~/%s says %d)" % (r["base"], r["base_limit"])}[c["where"]],
                                                            "", r["nsteps"], r["peak"], " ".join(r["trace"].split("\n"))[:400]),
                          {"cmd_case": c})
        else:
            if r["peak"] == c["k"]:
                chk.nontrivial.add("cmdleg:limit-reached:%s:%s" % (c["layout"], c["where"]))
    chk.oblige("cmdleg:every `start` ran all its steps to the end", not incomplete, "; ".join(incomplete)[:1500])
    chk.stats = dict(getattr(chk, "stats", None) or {}, cmdleg_cases=len(cases), cmdleg_peaks=peaks, cmdleg_wall=round(time.time() - t0, 1))
    chk.samples.append({"cmdleg": "real `start`, private HOME", "case": cases[0], "peak": res[0]["peak"], "base": res[0]["base"]})


def explore():
    """a different limit in every candidate base.yaml; 6 independent steps; the peak tells which file the tree under check read"""
    binp, out = common.build_real_binary()
    if not binp:
        print(out); return
    B = lambda n: "maxActiveRuns: %d\n" % n
    LEG, XDG, ROOTX, BDH = ".blackdagger/base.yaml", ".config/blackdagger/base.yaml", "cfgroot/blackdagger/base.yaml", "bdhome/base.yaml"
    scen = [("legacy  : legacy=1", "legacy", {LEG: B(1)}, {}, 0),
            ("xdg     : xdg=2", "xdg", {XDG: B(2)}, {}, 0),
            ("both    : legacy=1 xdg=2", "both", {LEG: B(1), XDG: B(2)}, {}, 0),
            ("both    : legacy dir without base.yaml, xdg=2", "both", {XDG: B(2)}, {}, 0),
            ("xdgenv  : $XDG_CONFIG_HOME=3 ~/.config=2", "xdgenv", {ROOTX: B(3), XDG: B(2)}, {}, 0),
            ("envhome : $BLACKDAGGER_HOME=4 legacy=1 xdg=2", "envhome", {BDH: B(4), LEG: B(1), XDG: B(2)}, {}, 0),
            ("flagcfg : --config baseConfig -> custom=5, legacy=1", "flagcfg", {"custom/base.yaml": B(5), LEG: B(1)}, {}, 0),
            ("cfgkey  : ~/.blackdagger/config.yaml baseConfig -> custom=3, legacy=1", "cfgkey", {LEG: B(1), "custom/base.yaml": B(3)}, {}, 0),
            ("envbase : BLACKDAGGER_BASE_CONFIG -> custom=3, legacy=1", "envbase", {LEG: B(1), "custom/base.yaml": B(3)}, {}, 0),
            ("legacy  : legacy=1, DAG file says 4", "legacy", {LEG: B(1)}, {}, 4),
            ("legacy  : legacy=4, DAG file says 1", "legacy", {LEG: B(4)}, {}, 1),
            ("legacy  : no limit anywhere", "legacy", {}, {}, 0)]
    with ThreadPoolExecutor(max_workers=len(scen)) as ex:
        res = list(ex.map(lambda s: run_case(binp, {"layout": s[1], "where": "dag", "k": s[4]}, extra_files=s[2], nsteps=6, envadd2=s[3]), scen))
    for s, r in zip(scen, res):
        print("%-75s -> peak %d   (rc=%d, %d/%d steps ended, %ss)" % (s[0], r["peak"], r["rc"], r["ends"], r["nsteps"], r["wall"]))


if __name__ == "__main__":
    if "--explore" in sys.argv:
        explore()
