"""C15 — scheduler family; shared stream in sched.py"""
import common, sched

PROP = "C15"


def run(chk, replay):
    sched.run_property(chk, PROP, replay)
