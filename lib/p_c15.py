"""C15 — scheduler family; shared stream in sched.py; plus the limit judged under the REAL agent (the DAG's maxActiveRuns
   reaches the scheduler through Agent.newScheduler)"""
import os, re
import common, sched

PROP = "C15"


def tie_names(area):
    p = os.path.join(common.LEAN, "BdModel", "Tie", area + ".lean")
    return re.findall(r"^theorem tie_(\w+) ", open(p).read(), re.M) if os.path.exists(p) else []


def run(chk, replay):
    import json
    if replay and "agent_case" in json.load(open(replay)).get("case", {}):
        import p_c08
        p_c08.agent_level(chk, PROP, 0, only=json.load(open(replay))["case"]["agent_case"]); return
    if replay and "cmd_case" in json.load(open(replay)).get("case", {}):
        import x_c15_cmd
        x_c15_cmd.run(chk, PROP, only=json.load(open(replay))["case"]["cmd_case"]); return
    if replay and "resolver_case" in json.load(open(replay)).get("case", {}):
        import x_resolver
        x_resolver.stream(chk, PROP, json.load(open(replay))["case"]); return
    chk.trusted = common.TRUSTED_COMMON + ["quiescence discipline of the scheduler harness (one completion released at a time)"]
    chk.assumptions = [sched.NOTES.get(PROP, "")]
    common.lean_obligations(chk, "BdModel/Props/%s.lean" % PROP,
                            {"Sched": sched.SCHED_TIE, "Graph": sched._ties_of("Graph"), "Agent": tie_names("Agent"), "Load": sched.LOAD_TIES_FOR_SCHED},
                            extra_targets=["BdModel.Sched.Tables"], extra_props=["BdModel/Props/C15Config.lean"])
    sched.run_stream(chk, PROP, replay)
    sched.yaml_stream(chk, PROP, replay)
    if not replay:
        import p_c08
        p_c08.agent_level(chk, PROP, 40 if chk.tier == "quick" else 400)
        # repeating steps under limit pressure: the slot of a step that waits out its repeat interval (lib/c15_repeat.py;
        # last, so that the PRNG sequences of the streams above are what they were). Replays of its cases have the
        # shared stream's format and go through sched.run_stream above.
        import c15_repeat
        c15_repeat.run(chk, PROP)
        # the limit of an installation's base configuration reaches the run through the REAL `start` (config.Load -> resolver ->
        # cfg.BaseConfig -> dag.Load), per home-directory layout (lib/x_c15_cmd.py; uses no PRNG)
        import x_c15_cmd
        x_c15_cmd.run(chk, PROP)
        # the configuration resolver inside the model: real config.Load() = Lean Config.Resolver on ~110 environments, and the
        # rule "the legacy directory wins" monitored on the real answers (lib/x_resolver.py; uses no PRNG)
        import x_resolver
        x_resolver.stream(chk, PROP)
