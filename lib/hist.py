"""History store stream (C06; reused by C07/C18): generator, reference spec (the property's own reading), comparison."""
import json, os, subprocess
import common

NAME_POOL = ["a", "a b", "a.b", "ab", "a_c", "x.20240101", "job[1]", "job*", "job?", "data\\x", "a.b.c", "très", "A"]
EXTS = [".yaml"]   # .yml locations are never produced by the DAG store for rename (observation O2)
DAY = 86400000
BASE = 1717200000000  # 2024-06-01 00:00:00 UTC in ms


def gen_case(rng, cid, nops, plain_names=False, today=False):
    nd = rng.randint(2, 4)
    pool = ["a", "ab", "a.b", "b1", "a_c", "A"] if plain_names else NAME_POOL
    names = rng.sample(pool, nd)
    dags = [n + rng.choice(EXTS) for n in names]
    ops, open_k, runs = [], {}, []          # open_k: k -> (d, req)
    nextk, nreq, pay = 0, 0, 0
    times = []
    def new_time():
        r = rng.random()
        if times and r < 0.05: return rng.choice(times)                         # same millisecond
        if times and r < 0.35: return (rng.choice(times) // 1000) * 1000 + rng.randrange(1000)   # same second
        if times and r < 0.5: return (rng.choice(times) // 60000) * 60000 + rng.randrange(60000)  # same minute
        if r < 0.6: return BASE + rng.randint(0, 3) * DAY + DAY - rng.randrange(1500)             # just before midnight
        if r < 0.7: return BASE + rng.randint(1, 4) * DAY + rng.randrange(1500)                  # just after midnight
        return BASE + rng.randrange(5 * DAY)
    busy = lambda d: any(v[0] == d for v in open_k.values())
    for _ in range(nops):
        r = rng.random()
        if r < 0.28 or not runs:
            d = rng.randrange(nd)
            if busy(d) and rng.random() < 0.8:
                continue
            t = new_time(); times.append(t)
            req = "%08x-%04d" % (rng.randrange(1 << 32), nreq); nreq += 1
            ops.append({"op": "open", "k": nextk, "d": d, "t": t, "req": req})
            open_k[nextk] = (d, req); runs.append((d, req)); nextk += 1
            if rng.random() < 0.9:      # the agent writes its first status right after opening
                ops.append({"op": "write", "k": nextk - 1, "req": req, "p": "p%d" % pay, "st": 1}); pay += 1
        elif r < 0.5 and open_k:
            k = rng.choice(list(open_k)); d, req = open_k[k]
            ops.append({"op": "write", "k": k, "req": req, "p": "p%d" % pay, "st": rng.choice([1, 1, 2, 4]),
                        "big": rng.choice([0] * 12 + [3900, 5000, 70000, 140000])}); pay += 1
        elif r < 0.68 and open_k:
            k = rng.choice(list(open_k)); del open_k[k]
            ops.append({"op": "close" if rng.random() < 0.85 else "abandon", "k": k})   # abandon = recorder killed, no compaction
        elif r < 0.78:
            d, req = rng.choice(runs)
            if any(v[1] == req for v in open_k.values()):
                continue        # manual edits of a run that is still being recorded are refused upstream (C20)
            if rng.random() < 0.15: req = "nosuchreq"
            ops.append({"op": "update", "d": d, "req": req, "p": "p%d" % pay, "st": rng.choice([2, 4]),
                        "big": rng.choice([0] * 8 + [70000])}); pay += 1
        elif r < 0.85:
            d, d2 = rng.sample(range(nd), 2)
            if busy(d) or busy(d2): continue
            ops.append({"op": "rename", "d": d, "d2": d2})
            runs = [((d2 if x == d else x), q) for (x, q) in runs]
        elif r < 0.91:
            d = rng.randrange(nd)
            ops.append({"op": "age", "d": d, "days": rng.choice([1, 3])})
        elif r < 0.97:
            d = rng.randrange(nd)
            if busy(d): continue
            ops.append({"op": "removeOld", "d": d, "days": rng.choice([2, 5])})
        else:
            d = rng.randrange(nd)
            if busy(d): continue
            ops.append({"op": "removeAll", "d": d})
    reqs = sorted({q for (_, q) in runs})[:12] + ["nosuchreq"]
    c = {"id": "h%d" % cid, "dags": dags, "ops": ops, "today": today, "reqs": reqs, "ns": [1, 2, 5]}
    if rng.random() < 0.3:
        c["bg"] = 3       # background readers on the long-lived store while the operations go on
    return c


def gen_killed_recorder_race_case(rng, cid, nruns):
    """C07's variant of the reader/writer race: a long-lived reader (the web server's store) polls while a recorder
    writes an acknowledged status and is then KILLED (no further write, no compaction: `abandon`) - the acknowledged
    status must be what every later query returns"""
    dags = ["k%d.yaml" % cid]
    t0 = BASE + rng.randrange(DAY)
    ops, reqs = [], []
    for k in range(nruns):
        req = "%08x-k%d" % (rng.randrange(1 << 32), k)
        reqs.append(req)
        ops.append({"op": "open", "k": k, "d": 0, "t": t0 + 5000 * k, "req": req, "noq": True})
        ops.append({"op": "write", "k": k, "req": req, "p": "w%d" % k, "st": 1, "big": 0, "noq": True})
        ops.append({"op": "write", "k": k, "req": req, "p": "x%d" % k, "st": 4, "big": 0, "spawn": 4, "delayUs": rng.choice([20, 40, 60, 90, 130, 180]),
                    "burst": ["b%d.%d" % (k, j) for j in range(rng.randint(0, 1))], "noq": True})
        ops.append({"op": "abandon", "k": k})            # the recorder is killed right after the acknowledged write
        if k % 2 == 1:
            ops.append({"op": "removeAll", "d": 0})
    return {"id": "krace%d" % cid, "dags": dags, "ops": ops, "today": False, "reqs": reqs[-3:], "ns": [1, 2]}


def gen_race_case(rng, cid, nruns):
    """readers against writers: background readers keep asking the long-lived store for the recent and the latest
    status (the web server does) while short runs are recorded and edited back to back: open, write, close and a manual
    update follow each other with NO query in between, so that the first read of the new file can overlap the next
    line landing in it; the answers after each such group (and after every other operation) are judged as usual"""
    dags = ["r%d.yaml" % cid]
    t0 = BASE + rng.randrange(DAY)
    ops, reqs = [], []
    for k in range(nruns):
        req = "%08x-r%d" % (rng.randrange(1 << 32), k)
        reqs.append(req)
        ops.append({"op": "open", "k": k, "d": 0, "t": t0 + 5000 * k, "req": req, "noq": True})
        ops.append({"op": "write", "k": k, "req": req, "p": "w%d" % k, "st": 1, "big": 0, "noq": True})
        if rng.random() < 0.7:
            ops.append({"op": "close", "k": k, "noq": True})
            ops.append({"op": "update", "d": 0, "req": req, "p": "u%d" % k, "st": rng.choice([2, 4]), "big": 0, "spawn": 4})
        else:
            ops.append({"op": "write", "k": k, "req": req, "p": "x%d" % k, "st": 1, "big": 0, "spawn": 4,
                        "burst": ["b%d.%d" % (k, j) for j in range(rng.randint(0, 2))]})
            ops.append({"op": "close", "k": k})
        if k % 2 == 1:
            ops.append({"op": "removeAll", "d": 0})
    return {"id": "race%d" % cid, "dags": dags, "ops": ops, "today": False, "reqs": reqs[-3:], "ns": [1, 2]}


class Spec:
    """the property's reference: per DAG file an append-only log of runs (start time, request id, last status)"""
    def __init__(self, c):
        self.c = c
        self.runs = {d: [] for d in range(len(c["dags"]))}     # run: dict(t, req, p, age)
        self.open = {}

    def apply(self, o):
        R = self.runs
        if o["op"] == "open":
            run = {"t": o["t"], "req": o["req"], "p": None, "age": 0}
            R[o["d"]].append(run); self.open[o["k"]] = run
        elif o["op"] == "write":
            run = self.open.get(o["k"])
            if run is not None:
                run["p"] = o["p"]; run["age"] = 0
        elif o["op"] == "abandon":
            self.open.pop(o["k"], None)
        elif o["op"] == "close":
            run = self.open.pop(o["k"], None)
            if run is not None and run["p"] is not None:
                run["age"] = 0          # compaction rewrites the file
        elif o["op"] == "update":
            for run in R[o["d"]]:
                if run["req"] == o["req"] and run["p"] is not None:
                    run["p"] = o["p"]; run["age"] = 0
        elif o["op"] == "rename":
            if o["d"] != o["d2"]:
                R[o["d2"]].extend(R[o["d"]]); R[o["d"]] = []
        elif o["op"] == "age":
            for run in R[o["d"]]:
                run["age"] += o["days"]
        elif o["op"] == "removeOld":
            R[o["d"]] = [r for r in R[o["d"]] if not (r["age"] >= o["days"]) or r in self.open.values()]
        elif o["op"] == "removeAll":
            R[o["d"]] = [r for r in R[o["d"]] if r in self.open.values()]

    def recorded(self, d):
        return [r for r in self.runs[d] if r["p"] is not None]

    def check(self, a, step):
        """compare one answer record of the implementation with the spec; yields (signature, detail)"""
        c = self.c
        for d in range(len(c["dags"])):
            rec = self.recorded(d)
            for q in c["reqs"]:
                got = a["find"].get("%d/%s" % (d, q))
                want = [r["p"] for r in rec if r["req"] == q]
                if not want:
                    if got != "!notfound":
                        yield ("lookup-returns-run-of-other-dag-or-removed", "dag %r req %s: got %r, nothing recorded" % (c["dags"][d], q, got))
                elif got not in want:
                    yield ("lookup-wrong", "dag %r req %s: got %r want %r" % (c["dags"][d], q, got, want))
            got = a["latest"][d]
            if not rec:
                if not got.startswith("!"):     # nothing recorded: any 'no data' / error answer is acceptable
                    yield ("latest-without-history", "dag %r: got %r" % (c["dags"][d], got))
            else:
                mt = max(r["t"] for r in rec)
                want = [r["p"] for r in rec if r["t"] == mt]
                if got not in want:
                    yield ("latest-wrong", "dag %r: got %r want %r (most recently started run)" % (c["dags"][d], got, want))
            for n in c["ns"]:
                got = a["recent"].get("%d/%d" % (d, n)) or []
                byp = {r["p"]: r for r in rec}
                ok = len(got) == min(n, len(rec)) and len(set(got)) == len(got) and all(p in byp for p in got)
                if ok:
                    ts = [byp[p]["t"] for p in got]
                    ok = all(ts[i] >= ts[i + 1] for i in range(len(ts) - 1))
                    if ok and len(got) < len(rec):
                        rest = [r["t"] for r in rec if r["p"] not in got]
                        ok = max(rest) <= min(ts) if ts else True
                if not ok:
                    yield ("recent-wrong", "dag %r n=%d: got %r, recorded (t,p) newest first: %r" % (
                        c["dags"][d], n, got, sorted(((r["t"], r["p"]) for r in rec), reverse=True)[:n + 2]))


def classify(case, sig, detail):
    """attach the failing input class to a signature (so that a different violation is still reported)"""
    return sig


def run_cases(binp, cases, timeout=3000):
    p = subprocess.run([binp], input="\n".join(json.dumps(c) for c in cases) + "\n", stdout=subprocess.PIPE,
                       stderr=subprocess.PIPE, text=True, timeout=timeout)
    out = {}
    for l in p.stdout.strip().split("\n"):
        if l.strip():
            r = json.loads(l); out[r["id"]] = r
    return out, p.returncode, p.stderr


def gen_big_record_case(rng, cid):
    """what the status of a run looks like for a DAG of >100 steps or with long outputs: records far beyond 64 KiB, in
       compacted files (one line) and in the files a killed agent leaves (several lines, the later ones the big ones)"""
    dags = ["big.yaml", "other.yaml"]
    ops, pay, k = [], 0, 0
    reqs = []
    t = BASE + rng.randrange(DAY)
    for run in range(rng.randint(2, 3)):
        req = "%08x-%04d" % (rng.randrange(1 << 32), run); reqs.append(req)
        t += rng.randint(1000, 90000)
        ops.append({"op": "open", "k": k, "d": 0, "t": t, "req": req})
        nw = rng.randint(2, 4)
        for w in range(nw):
            big = 0 if w == 0 else rng.choice([66000, 90000, 140000, 300000, 1100000, 2200000])
            ops.append({"op": "write", "k": k, "req": req, "p": "p%d" % pay, "st": 1 if w < nw - 1 else rng.choice([2, 4]), "big": big}); pay += 1
        ops.append({"op": "abandon" if (run == 1 or rng.random() < 0.3) else "close", "k": k})
        k += 1
    t += 5000
    ops.append({"op": "open", "k": k, "d": 1, "t": t, "req": "0ther-0001"})
    ops.append({"op": "write", "k": k, "req": "0ther-0001", "p": "p%d" % pay, "st": 4}); pay += 1
    ops.append({"op": "close", "k": k})
    return {"id": "big%s" % cid, "dags": dags, "ops": ops, "today": False, "reqs": reqs + ["0ther-0001", "nosuchreq"], "ns": [1, 2, 5]}


def big_record_leg(chk, prop, what, n=None):
    """the history store as the other properties' code reads it (latest status: the daemon's start guard and the status
       reports; look-up by request id: retry, status edits): records of every size must come back as recorded.
       `what`: which clause of `prop` rests on these reads (goes into the verdict)."""
    import common
    binp, out = common.build_harness("hist")
    if not binp:
        chk.oblige("harness-build:hist", False, out[-3000:]); return
    cases = [gen_big_record_case(chk.rng, k) for k in range(n or (4 if chk.tier == "quick" else 24))]
    results, rc, err = run_cases(binp, cases)
    if rc != 0:
        chk.oblige("harness-run:hist(big records)", False, err[-2000:]); return
    nq = 0
    for c in cases:
        r = results.get(c["id"])
        if r is None or r.get("panic"):
            chk.violation(prop + ":history-read:store-panics-or-gives-no-answer:big-records", "%s: %s" % (what, (r or {}).get("panic", "no result")), {"hist_case": c}); continue
        spec = Spec(c)
        for i, o in enumerate(c["ops"]):
            if i >= len(r["answers"] or []): break
            a = r["answers"][i]
            spec.apply(o); nq += 1
            if a.get("skip"): continue
            bad = list(spec.check(a, i))
            if bad:
                sig, detail = bad[0]
                chk.violation("%s:history-read:%s:status-records-beyond-64KiB" % (prop, sig),
                              "%s — %s (after op %d %s)" % (what, detail, i, json.dumps(o)), {"hist_case": dict(c, ops=c["ops"][:i + 1])})
                break
    chk.evaluations += nq
    chk.stats = dict(chk.stats or {}, big_record_reads=nq)


def replay_big_record(chk, prop, what, case):
    import common
    binp, out = common.build_harness("hist")
    results, rc, err = run_cases(binp, [case])
    r = results.get(case["id"]) or {}
    spec = Spec(case)
    for i, o in enumerate(case["ops"]):
        if i >= len(r.get("answers") or []): break
        spec.apply(o)
        a = r["answers"][i]
        if a.get("skip"): continue
        bad = list(spec.check(a, i))
        if bad:
            chk.violation("%s:history-read:%s:status-records-beyond-64KiB" % (prop, bad[0][0]), "%s — %s" % (what, bad[0][1]), {"hist_case": case}); break
