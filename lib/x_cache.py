"""Read cache of the history store (internal/persistence/filecache, used by jsondb.ReadStatusRecent /
   ReadStatusToday through cache.LoadLatest) — correspondence stream and property monitor.

   `stream(chk, prop, replay_case=None)`:
     * builds go/harness/cache (the REAL filecache.Cache[*model.Status] with jsondb.ParseFile as loader, on
       real files; real evict() through go/hooks/filecache_hooks_verif.go),
     * generates operation sequences (several files; bursts of appends, many in the same second and of equal
       length; queries with appends landing between their stat / read / store; unlinks; evictions;
       invalidations; rarely a name re-created) from chk.rng,
     * runs harness and Lean driver (`driver cache`: Hist/Cache.lean, the definitions Props/C07Cache.lean is
       about) on the same lines and compares the answers line by line (answer + file stat + cache entry),
     * judges the implementation's answers with an independent monitor (plain Python bookkeeping of what was
       appended; no use of the Lean model): a query with no concurrent write returns the file's CURRENT
       status; a query overlapped by appends returns a status no older than the one at its start; a query never
       panics — neither sequentially (fixed probe: empty file with epoch mtime, finding F46) nor while other
       goroutines invalidate / evict the entry (harness op `race f <ms>`, ~5 per quick run; the model's hit path
       is atomic, the driver answers the constant `race panics=0 wrong=0`)."""
import json, os, subprocess, sys, time
import common

HOOKS = {"internal/persistence/filecache/zz_verif_hooks.go": "go/hooks/filecache_hooks_verif.go"}
MINLINE = 400            # a marshalled model.Status is ~260 bytes; lines are padded to the requested length
T0 = 1700000000


def fmt_writes(ws):
    return ";".join("%d:%d:%d" % w for w in ws) if ws else "-"


def gen_case(rng, cid, st, race=False):
    """one case = list of op lines. Data markers are unique and increasing, so an old status is recognisable."""
    lines = ["case c%d" % cid]
    nf = rng.randint(1, 4)
    nextd = [cid * 1000 % 900000 + 1]
    sizes = [MINLINE, MINLINE, MINLINE + 50, rng.randint(MINLINE, MINLINE + 500)]
    live, used, removed = [], [], []
    flavour = rng.choice(["mixed", "mixed", "same-second", "bursts", "churn"])
    pdt0 = {"mixed": 0.6, "same-second": 0.95, "bursts": 0.7, "churn": 0.5}[flavour]

    def data():
        nextd[0] += 1
        return nextd[0]

    def wr():
        dt = 0 if rng.random() < pdt0 else rng.randint(1, 3)
        g = rng.choice(sizes) - 1
        st["same_second_appends"] += dt == 0
        st["appends"] += 1
        return (g, dt, data())

    def create(f=None):
        if f is None:
            f = len(used)
            used.append(f)
        empty = rng.random() < 0.5           # jsondb.Open creates the file, the first Write comes later
        mt = T0 + rng.randint(0, 5)
        lines.append("create %d %d %d %d" % (f, 0 if empty else rng.choice(sizes), mt, data()))
        st["create_empty" if empty else "create_with_status"] += 1
        if f not in live:
            live.append(f)
        return f

    create()
    nops = rng.randint(15, 60)
    for _ in range(nops):
        r = rng.random()
        pool = live or used
        f = rng.choice(pool)
        if (r < 0.07 or not live) and len(used) < nf:
            create()
        elif r < 0.30:
            for _ in range(rng.choice([1, 1, 2, 3, 4]) if flavour != "bursts" else rng.randint(2, 6)):
                lines.append("append %d %d %d %d" % ((f,) + wr()))
        elif r < 0.62:
            lines.append("load %d - -" % f); st["quiet_loads"] += 1
        elif r < 0.80:
            pre = [wr() for _ in range(rng.choice([0, 1, 1, 2]))]
            post = [wr() for _ in range(rng.choice([0, 1, 1, 2]))]
            lines.append("load %d %s %s" % (f, fmt_writes(pre), fmt_writes(post)))
            st["loads_overlapped"] += bool(pre or post); st["quiet_loads"] += not (pre or post)
            if rng.random() < 0.8:          # the query right after: this is where a stale view would show
                lines.append("load %d - -" % f); st["quiet_loads"] += 1
        elif r < 0.85:
            lines.append("evict %d" % f); st["evictions"] += 1
        elif r < 0.89:
            lines.append("invalidate %d" % f); st["invalidations"] += 1
        elif r < (0.915 if flavour == "churn" else 0.90):
            lines.append("remove %d" % f); st["removes"] += 1
            if f in live: live.remove(f); removed.append(f)
        elif r < 0.925:
            lines.append("loadrm %d %s" % (f, fmt_writes([wr() for _ in range(rng.choice([0, 0, 1]))]))); st["loads_with_unlink"] += 1
            if f in live: live.remove(f); removed.append(f)
        elif r < 0.94 and removed and rng.random() < 0.3:
            # NOT admissible (a history file name is never re-used); kept rare: only the correspondence covers it
            g = rng.choice(removed); removed.remove(g); create(g); st["recreated_names"] += 1
        else:
            lines.append("load %d - -" % rng.choice(used)); st["quiet_loads"] += 1
    if race:
        # sample the REAL interleavings of LoadLatest with concurrent Invalidate / eviction (the model's hit path is
        # one atomic step): 4 querying goroutines against the two deleting ones for 150 ms, on a file with a status
        f = rng.choice(live) if live else create()
        lines.append("append %d %d %d %d" % ((f,) + wr()))
        lines.append("race %d 150" % f); st["race_ops"] += 1
    for f in used:                           # writers quiet: first and second query of every file
        lines.append("load %d - -" % f); lines.append("load %d - -" % f); st["quiet_loads"] += 2
    return lines


class Monitor:
    """what the files hold, from the operations alone (no model): per name `cur` = marker of the last status
    appended (None = no status yet), `exists`, and whether the name was re-created (then nothing is demanded).
    Whether the appends scheduled INSIDE a query took place (the harness performs them in the loader callback,
    so only when the loader ran) is read off the size the implementation's own os.Stat reports afterwards."""

    def __init__(self):
        self.files, self.everseen = {}, set()
        self.selfcheck = None

    def feed(self, line, answer):
        """returns (signature-suffix, text) or None"""
        ws = line.split()
        op, f = ws[0], ws[1]
        parse = lambda s: [] if s == "-" else [tuple(int(v) for v in p.split(":")) for p in s.split(";")]
        ans, rest = answer.split(" file=")
        fstat = rest.split(" entry=")[0]
        fstat = None if fstat == "-" else fstat.split(",")
        x = self.files.get(f)
        verdict = None
        if op == "create":
            tainted = f in self.everseen
            self.everseen.add(f)
            x = self.files[f] = {"exists": True, "cur": int(ws[4]) if int(ws[2]) > 0 else None, "tainted": tainted, "size": 0}
        elif op == "append":
            if x and x["exists"]: x["cur"] = int(ws[4])
        elif op == "remove":
            if x: x["exists"] = False
        elif op in ("load", "loadrm"):
            pre = parse(ws[2]); post = parse(ws[3]) if op == "load" else []
            exists = bool(x and x["exists"])
            at_stat = x["cur"] if exists else None
            if x and x["tainted"]:
                pass
            elif op == "load" and not pre and not post:
                if exists and at_stat is not None and ans != "data %d" % at_stat:
                    if ans.startswith("data "):
                        verdict = ("quiet-query-returns-stale-status",
                                   "a query with no concurrent write returned status %s, the file's last status is %d" % (ans[5:], at_stat))
                    else:
                        verdict = ("quiet-query-fails-although-a-status-is-recorded", "answer %r, the file's last status is %d" % (ans, at_stat))
                elif not exists and ans.startswith("data "):
                    verdict = ("query-answers-for-an-unlinked-file", "answer %r for a name that does not exist" % ans)
            elif exists:
                allowed = set()
                if at_stat is not None: allowed.add(at_stat)
                if pre: allowed.add(pre[-1][2])
                if ans.startswith("data ") and int(ans[5:]) not in allowed:
                    verdict = ("query-returns-status-older-than-at-its-start",
                               "answer %r; status at the query's stat %r, after the appends before its read %r" % (ans, at_stat, sorted(allowed)))
            if exists:
                if op == "loadrm":
                    if fstat is None: x["exists"] = False
                elif (pre or post) and fstat is not None and int(fstat[0]) != x["size"]:
                    x["cur"] = (pre + post)[-1][2]
        if x is not None:
            if fstat is not None: x["size"] = int(fstat[0])
            # the bookkeeping against a direct read of the file (jsondb.ParseFile by the harness, not through the cache)
            mine = "-" if not x["exists"] else ("-" if x["cur"] is None else str(x["cur"]))
            theirs = "-" if fstat is None else fstat[2]
            if mine != theirs and self.selfcheck is None:
                self.selfcheck = "after %r: bookkeeping says %s, the file holds %s" % (line, mine, theirs)
        return verdict


def run_lines(binp, text):
    p = subprocess.run([binp], input=text, stdout=subprocess.PIPE, stderr=subprocess.PIPE, text=True, timeout=900)
    return p.returncode, p.stdout.split("\n"), p.stderr


def judge(chk, prop, cases, gout, lout, st):
    """cases: list of line lists; gout/lout: answer lines of harness / driver (same order)"""
    i, dis, first = 0, 0, None
    for lines in cases:
        mon = Monitor()
        last = {}
        done = False                         # after the first verdict of a case only the correspondence goes on
        for k, ln in enumerate(lines):
            a = gout[i] if i < len(gout) else "<missing>"
            b = lout[i] if i < len(lout) else "<missing>"
            i += 1
            chk.evaluations += 1
            if a != b:
                dis += 1
                if first is None:
                    first = "case %s op %d %r:\n  implementation: %s\n  model:          %s\n  ops: %s" % (lines[0], k, ln, a, b, json.dumps(lines[:k + 1]))
            if k == 0 or done:
                continue
            if " file=" not in a:
                chk.oblige("harness-run:cache:%s" % lines[0], False, "%r -> %r" % (ln, a)); done = True; continue
            if a.startswith("bad-") or a.startswith("harness-panic"):
                chk.oblige("harness-run:cache:%s" % lines[0], False, "%r -> %r" % (ln, a)); done = True; continue
            if a.startswith("panic"):
                st["panics"] += 1
            fid = ln.split()[1]
            if ln.startswith("load ") and a.startswith("data ") and fid in last:
                # answered from the entry? (the entry and the stat the implementation reported before this query)
                fl, en = last[fid].split(" file=")[1].split(" entry=")
                if fl != "-" and en != "-" and en.split(",")[1:] == fl.split(",")[:2]:
                    st["answered_from_entry"] += 1
                if fl != "-" and en != "-" and en.split(",")[2] == fl.split(",")[1] and en.split(",")[1] != fl.split(",")[0]:
                    st["reloads_same_second_size_differs"] += 1      # only the size comparison notices the append
            last[fid] = a
            v = mon.feed(ln, a)
            if mon.selfcheck:
                chk.oblige("monitor-bookkeeping:cache:%s" % lines[0], False, mon.selfcheck); done = True; continue
            if ln.startswith("load"):
                chk.nontrivial.add(lines[0] + ":%d" % k)
            if v:
                st["verdicts"][v[0]] = st["verdicts"].get(v[0], 0) + 1
                chk.violation("%s:cache:%s" % (prop, v[0]),
                              "read cache (filecache.LoadLatest as jsondb's queries use it): %s — op %d %r of %s" % (v[1], k, ln, lines[0]),
                              {"cache_ops": lines[:k + 1]})
                done = True
    return dis, first


def stream(chk, prop, replay_case=None):
    t0 = time.time()
    binp, out = common.build_harness("cache", HOOKS)
    if not binp:
        chk.oblige("harness-build:cache", False, out[-3000:]); return
    chk.oblige("harness-build:cache", True)
    st = {k: 0 for k in ["cases", "ops", "appends", "same_second_appends", "create_empty", "create_with_status", "quiet_loads",
                         "loads_overlapped", "loads_with_unlink", "evictions", "invalidations", "removes", "recreated_names", "panics", "answered_from_entry", "reloads_same_second_size_differs", "race_ops", "race_panics", "race_wrong"]}
    st["verdicts"] = {}
    if replay_case is not None and "cache_ops" in replay_case:
        cases = [list(replay_case["cache_ops"])]
    else:
        n = 220 if chk.tier == "quick" else 2200
        every = n // (5 if chk.tier == "quick" else 50)
        cases = [gen_case(chk.rng, k, st, race=(k % every == every // 2)) for k in range(n)]
        # fixed probe (finding F46, fixed by 99b4ced; regression example in Props/C07Cache.lean): a file that is still
        # empty and whose mtime is the epoch. Before the fix the query panicked; now both sides answer `err empty`
        cases.append(["case probe-epoch-empty", "create 0 0 0 1", "load 0 - -", "append 0 %d 0 2" % (MINLINE - 1), "load 0 - -", "load 0 - -"])
    st["cases"] = len(cases); st["ops"] = sum(len(c) - 1 for c in cases)
    text = "\n".join("\n".join(c) for c in cases) + "\n"
    rc, gout, gerr = run_lines(binp, text)
    if rc != 0:
        chk.oblige("harness-run:cache", False, gerr[-2000:]); return
    drc, dout, derr = common.run_driver("cache", text, timeout=900)
    if drc != 0:
        chk.oblige("driver-run:cache", False, derr[-2000:]); return
    lout = dout.split("\n")
    dis, first = judge(chk, prop, cases, gout, lout, st)
    # answers by class (from the implementation's lines)
    cls = {}
    for a in gout:
        k = a.split(" file=")[0]
        k = "data" if k.startswith("data ") else k
        if k and not k.startswith("case "): cls[k] = cls.get(k, 0) + 1
    st["answers"] = cls
    if cases[-1][0] == "case probe-epoch-empty":
        k = sum(len(c) for c in cases[:-1]) + 2
        st["epoch_empty_probe"] = gout[k].split(" file=")[0] if k < len(gout) else "?"
    # a query that panics instead of answering (the store's queries must return a status or an error)
    pos = 0
    for c in cases:
        for j in range(len(c)):
            a = gout[pos + j] if pos + j < len(gout) else ""
            head = a.split(" file=")[0].strip()
            if j > 0 and head == "panic":
                chk.violation(prop + ":cache:query-panics-instead-of-answering",
                              "op %r of %s: LoadLatest panicked (interface conversion on a name that has no cache entry)" % (c[j], c[0]),
                              {"cache_ops": c[:j + 1]})
                break
            if j > 0 and head.startswith("race panics="):
                np_, nw = (int(x.split("=")[1]) for x in head.split()[1:3])
                st["race_panics"] += np_; st["race_wrong"] += nw
                if np_ > 0:
                    chk.violation(prop + ":cache:query-panics-instead-of-answering",
                                  "op %r of %s: LoadLatest panicked %d times while the entry was being invalidated / evicted by "
                                  "other goroutines (the entry vanished between the staleness test and its use)" % (c[j], c[0], np_),
                                  {"cache_ops": c[:j + 1]})
                    break
                if nw > 0:
                    chk.violation(prop + ":cache:concurrent-query-returns-foreign-status",
                                  "op %r of %s: %d answers of LoadLatest under concurrent invalidation were neither the file's "
                                  "status nor an error" % (c[j], c[0], nw), {"cache_ops": c[:j + 1]})
                    break
        pos += len(c)
    st["wall_s"] = round(time.time() - t0, 2)
    chk.disagreements += dis; chk.disagreements_checked += dis
    chk.oblige("correspondence:cache (real filecache.Cache + jsondb.ParseFile on real files = Lean Hist/Cache.step: answer, file stat, cache entry after every op)",
               dis == 0, "" if dis == 0 else "%d differing lines; first: %s" % (dis, first))
    chk.stats = dict(chk.stats or {}, cache=st)
    return st


if __name__ == "__main__":
    seed = int(sys.argv[1]) if len(sys.argv) > 1 else int(os.environ.get("VERIF_SEED", "1"))
    tier = os.environ.get("VERIF_TIER", "quick")
    chk = common.Check("C07", tier, seed)
    rc = None
    if len(sys.argv) > 2:                    # replay file
        rp = json.load(open(sys.argv[2]))
        rc = rp.get("case") or rp
    t = time.time()
    stream(chk, "C07", rc)
    print("seed", seed, "tier", tier, "repo", common.REPO, "wall %.2fs" % (time.time() - t))
    print("stats", json.dumps(chk.stats.get("cache"), sort_keys=True))
    for n, ok, d in chk.obligations:
        print("OBLIGATION", "ok " if ok else "BROKEN", n, d[:1500])
    for v in chk.violations:
        print("VIOLATION", v["signature"], "|", v["what"], "|", json.dumps(v["replay"]))
    print("evaluations", chk.evaluations, "nontrivial", len(chk.nontrivial))
    sys.exit(1 if chk.violations or chk.broken() else 0)
