"""C09 — the scheduler daemon starts each DAG exactly at its scheduled minutes."""
import calendar, datetime, json, os, subprocess, time
import common

TIE = {"Cron": ["h_cron_run", "h_cron_nextTick", "h_cron_start", "h_cron_Invoke", "h_cron_now",
                "h_cron_jobStart", "h_cron_jobStop", "h_cron_jobRestart",
                "h_cron_Read", "h_cron_initDags", "h_cron_watchDags", "h_cron_newEntryReader",
                "h_cron_buildSchedule", "h_cron_parseSchedules", "h_cron_parseScheduleMap", "h_cron_parseCron", "h_cron_ParseTime"]}

UTC = datetime.timezone.utc


def ts(y, mo, d, h=0, mi=0, s=0):
    return calendar.timegm((y, mo, d, h, mi, s))


# =====================================================================================================
#  independent cron matcher (standard 5-field grammar; own parser, Python's calendar — neither Lean nor robfig)
# =====================================================================================================

MONTHS = {n: i + 1 for i, n in enumerate("jan feb mar apr may jun jul aug sep oct nov dec".split())}
DOWS = {n: i for i, n in enumerate("sun mon tue wed thu fri sat".split())}
FIELDS = [(0, 59, {}), (0, 23, {}), (1, 31, {}), (1, 12, MONTHS), (0, 6, DOWS)]


class NotStandard(Exception):
    """the expression is not in the standard grammar the monitor understands (it then abstains)"""


def _num(tok, names):
    t = tok.lower()
    if t in names:
        return names[t]
    if tok.isascii() and tok.isdigit() and len(tok) <= 4:
        return int(tok)
    raise NotStandard(tok)


def py_field(text, lo, hi, names):
    """-> (set of values, starred)  for  item(,item)*  with  item = * | ? | n | n-m | */s | n-m/s | n/s"""
    vals, star = set(), False
    if text == "" or text.startswith(",") or text.endswith(",") or ",," in text:
        raise NotStandard(text)
    for item in text.split(","):
        rng, _, step = item.partition("/")
        if "/" in step or rng == "":
            raise NotStandard(item)
        st = 1
        if "/" in item:
            if not (step.isascii() and step.isdigit() and len(step) <= 4):
                raise NotStandard(item)
            if int(step) == 0:
                raise ValueError("bad step")
            st = int(step)
        if rng in ("*", "?"):
            a, b = lo, hi
            if st == 1:
                star = True
        elif "-" in rng:
            x, _, y = rng.partition("-")
            if "-" in y or "*" in rng:
                raise NotStandard(item)
            a, b = _num(x, names), _num(y, names)
        else:
            a = _num(rng, names)
            b = hi if "/" in item else a
        if a < lo or b > hi or a > b:
            raise ValueError("out of bounds")
        vals |= set(range(a, b + 1, st))
    return vals, star


class PySpec:
    def __init__(self, text):
        if text != text.strip(" ") or "\t" in text or "  " in text or not text.isascii():
            raise NotStandard("spacing")
        if "=" in text:
            raise NotStandard("zone prefix")
        parts = text.split(" ")
        if len(parts) != 5:
            raise ValueError("field count")
        if text.startswith("@"):
            raise ValueError("descriptor")
        self.f = [py_field(p, lo, hi, nm) for p, (lo, hi, nm) in zip(parts, FIELDS)]

    def day_ok(self, dt):
        (_, _), (_, _), (dom, dstar), (mon, _), (dow, wstar) = self.f
        if dt.month not in mon:
            return False
        dm = dt.day in dom
        wm = (dt.isoweekday() % 7) in dow
        return (dm and wm) if (dstar or wstar) else (dm or wm)

    def matches(self, sec):
        """does the schedule name the minute that starts at Unix second `sec` (a multiple of 60), UTC"""
        dt = datetime.datetime.fromtimestamp(sec, UTC)
        return dt.minute in self.f[0][0] and dt.hour in self.f[1][0] and self.day_ok(dt)

    def ever_within(self, sec, years=6):
        """is there a matching day from the day of `sec` up to 1 Jan of year(sec)+years (robfig's horizon) — day-level scan"""
        if not self.f[0][0] or not self.f[1][0]:
            return False
        d = datetime.datetime.fromtimestamp(sec, UTC).date()
        end = datetime.date(d.year + years, 1, 1)
        one = datetime.timedelta(days=1)
        while d < end:
            if self.day_ok(d):
                return True
            d += one
        return False


def py_parse(text):
    """'ok' PySpec | 'err' | None (abstain)"""
    try:
        return PySpec(text)
    except NotStandard:
        return None
    except ValueError:
        return "err"


# =====================================================================================================
#  generators
# =====================================================================================================

def gen_value(rng, lo, hi, names):
    v = rng.randint(lo, hi)
    if names and rng.random() < 0.35:
        nm = [k for k, x in names.items() if x == v][0]
        return rng.choice([nm, nm.upper(), nm.capitalize()])
    return rng.choice(["%d", "%d", "%d", "%02d"]) % v


def gen_item(rng, lo, hi, names, want=None):
    """one list item; if want is given the item covers that value"""
    k = rng.random()
    if want is not None:
        if k < 0.45:
            v = want
            if names and rng.random() < 0.4:
                return [n for n, x in names.items() if x == v][0]
            return str(v)
        if k < 0.75:
            a = rng.randint(lo, want)
            b = rng.randint(want, hi)
            return "%d-%d" % (a, b)
        if k < 0.9:
            st = rng.randint(1, 6)
            a = want - st * rng.randint(0, (want - lo) // st)
            return rng.choice(["%d/%d" % (a, st), "%d-%d/%d" % (a, hi, st)])
        st = rng.choice([d for d in range(1, 8) if (want - lo) % d == 0])
        return "*/%d" % st
    if k < 0.35:
        return gen_value(rng, lo, hi, names)
    if k < 0.6:
        a = rng.randint(lo, hi)
        b = rng.randint(a, hi)
        return "%s-%s" % (gen_value(rng, a, a, names), gen_value(rng, b, b, names))
    if k < 0.75:
        return "*/%d" % rng.randint(1, max(2, (hi - lo)))
    if k < 0.88:
        a = rng.randint(lo, hi)
        b = rng.randint(a, hi)
        return "%d-%d/%d" % (a, b, rng.randint(1, 7))
    return "%d/%d" % (rng.randint(lo, hi), rng.randint(1, 9))


def gen_field(rng, idx, want=None, star_p=0.4):
    lo, hi, names = FIELDS[idx]
    if rng.random() < star_p:
        return rng.choice(["*", "*", "*", "?"]) if idx in (2, 4) else "*"
    n = rng.choice([1, 1, 1, 2, 2, 3, 4])
    items = [gen_item(rng, lo, hi, names) for _ in range(n - (1 if want is not None else 0))]
    if want is not None:
        items.insert(rng.randint(0, len(items)), gen_item(rng, lo, hi, names, want))
    return ",".join(items)


def gen_spec(rng, target=None):
    """a standard-grammar expression; with target (Unix s, multiple of 60) it fires at that minute"""
    if target is None:
        return " ".join(gen_field(rng, i, star_p=[0.25, 0.45, 0.6, 0.6, 0.6][i]) for i in range(5))
    dt = datetime.datetime.fromtimestamp(target, UTC)
    want = [dt.minute, dt.hour, dt.day, dt.month, dt.isoweekday() % 7]
    return " ".join(gen_field(rng, i, want[i], star_p=[0.2, 0.4, 0.55, 0.55, 0.55][i]) for i in range(5))


NEVER = ["0 0 31 2 *", "0 0 30 2 *", "5 4 31 4,6,9,11 *", "* * 31 feb *", "*/10 * 30,31 2 ?", "0 12 31 Jun *"]
LEAP_ONLY = ["0 0 29 2 *", "30 6 29 feb *"]
QUIRKS = ["*-5 * * * *", "+5 * * * *", "007 * * * *", "* * * * sun-SAT", "5, * * * *", ",5 * * * *", ", * * * *", "* * * * ,",
          "*/1 * * * *", "?/2 * * * *", "0 0 */2 * 1", "0 0 1 * mon", "0 0 1,*/1 * mon", "59/1 * * * *", "jan * * * *",
          "* * * jan/3 *", "* * * * fri/2", "  0  0  1  1  * ", "0\t0\t1\t1\t*", "0 0 1 1 *\n", " 0 0 1 1 *", "TZ=UTC 5 4 * * *",
          "CRON_TZ=UTC  */7 * * * *", "TZ= 1 2 3 4 5", "TZ=UTC", "CRON_TZ=UTC", "TZ=UTC ", "TZ=UTC 1 2 3 4", "* * * * 0-6", "* * 1-31 1-12 *",
          "*/60 * * * *", "*/9223372036854775807 * * * *", "0-59/59 * * * *", "* * * * 6/1"]
INVALID = ["", " ", "* * * *", "* * * * * *", "@daily", "@every 1m", "60 * * * *", "* 24 * * *", "* * 0 * *", "* * 32 * *",
           "* * * 0 *", "* * * 13 *", "* * * * 7", "5-1 * * * *", "*/0 * * * *", "1/2/3 * * * *", "1-2-3 * * * *", "1/-2 * * * *",
           "-1 * * * *", "a * * * *", "* * jan * *", "* * * mon *", "* * * * janx", "1- * * * *", "-1-2 * * * *", "*/ * * * *",
           "/5 * * * *", "99999999999999999999 * * * *", "1/99999999999999999999 * * * *", "1.5 * * * *", "0x1 * * * *", "1_0 * * * *",
           "* * * * * ", "*,60 * * * *", "1,,61 * * * *", "** * * * *", "*? * * * *", "* * * * sun-7", "* * * feb-jan *", "0-60 * * * *"]


def mutate(rng, spec):
    cs = list(spec)
    for _ in range(rng.randint(1, 2)):
        k = rng.random()
        pos = rng.randrange(len(cs) + 1)
        if k < 0.4 and cs:
            cs[min(pos, len(cs) - 1)] = rng.choice("0123456789*/-,? +@=ajsu")
        elif k < 0.7:
            cs.insert(pos, rng.choice("0123456789*/-,? +"))
        elif cs:
            del cs[min(pos, len(cs) - 1)]
    return "".join(cs)


INTERESTING = [ts(2024, 2, 28, 23, 58), ts(2024, 2, 29, 23, 58), ts(2023, 2, 28, 23, 58), ts(2100, 2, 28, 23, 58),
               ts(2000, 2, 29, 0, 0), ts(2023, 12, 31, 23, 58), ts(1999, 12, 31, 23, 59), ts(2024, 4, 30, 23, 57),
               ts(2024, 1, 31, 23, 59), ts(2096, 2, 29, 12, 0), ts(2097, 3, 1, 0, 0), ts(2099, 12, 31, 23, 58),
               ts(1970, 1, 1, 0, 1), ts(1972, 2, 29, 0, 0), ts(2038, 1, 19, 3, 14), ts(2024, 3, 31, 1, 59), ts(2024, 10, 27, 1, 59)]


def gen_instant(rng):
    return max(600, _gen_instant(rng))


def _gen_instant(rng):
    k = rng.random()
    if k < 0.3:
        return rng.choice(INTERESTING) + rng.choice([0, 0, 1, 59, 60, 61, 119, -1, -60, -61, 3599])
    if k < 0.45:   # last minutes of a random month
        y, mo = rng.randint(1970, 2099), rng.randint(1, 12)
        last = calendar.monthrange(y, mo)[1]
        return ts(y, mo, last, 23, rng.randint(55, 59), rng.randint(0, 59))
    return rng.randint(60, ts(2100, 1, 1))


def hx(s):
    return s.encode("utf-8").hex() or "-"


# ---------------------------------------------------------------------------------------------- files

def render_yaml(d):
    """file content for a definition"""
    q = lambda s: json.dumps(s)
    tail = "steps:\n  - name: a\n    command: \"true\"\n"

    def val(v, ind):
        if v["t"] == "s":
            return " " + q(v["s"]) + "\n"
        if v["t"] == "o":           # neither a string nor a list: null ("", "~", "null") or wrong-typed (5, {}, true, 1.5)
            return " " + v.get("y", "5") + "\n"
        if not v["items"]:
            return " []\n"
        return "\n" + "".join("%s- %s\n" % (ind, q(i) if i is not None else "7") for i in v["items"])
    f = d["form"]
    if d.get("name") is not None and f != "bad":
        tail = "name: %s\n" % q(d["name"]) + tail      # explicit DAG name (may differ from the file's id)
    if f == "absent":
        return tail
    if f == "bad":
        return "schedule: \"* * * * *\"\nsteps: [ {{ ::\n  - name\n"
    if f == "other":
        return "schedule: 5\n" + tail
    if f == "str":
        return "schedule:" + val({"t": "s", "s": d["s"]}, "") + tail
    if f == "list":
        return "schedule:" + val({"t": "l", "items": d["items"]}, "  ") + tail
    if f == "map":
        if not d["kvs"]:
            return "schedule: {}\n" + tail
        out = "schedule:\n"
        for k, v in d["kvs"]:
            key = {"unknown": "foo", "nonstr": "5"}.get(k, k)
            out += "  %s:%s" % (key, val(v, "    "))
        return out + tail
    raise ValueError(f)


def render_def(d):
    """driver token for a definition"""
    def items(it):
        return ",".join("~" if i is None else hx(i) for i in it)

    def val(v):
        return {"s": lambda: "s:" + hx(v["s"]), "l": lambda: "l:" + items(v["items"]), "o": lambda: "o"}[v["t"]]()
    f = d["form"]
    if f in ("absent", "bad"):
        return f
    if f == "other":
        return "o"
    if f == "str":
        return "s:" + hx(d["s"])
    if f == "list":
        return "l:" + items(d["items"])
    return "m:" + ";".join("%s=%s" % (k, val(v)) for k, v in d["kvs"])


NULLS = ("", "~", "null")
WRONG_TYPED = ("5", "{}", "true", "1.5", "0")


def def_specs(d):
    """(starts, stops, restarts, bad_class) as the documented forms mean them; bad_class names a reason the file is not loadable"""
    f = d["form"]
    if f == "absent":
        return [], [], [], None
    if f == "bad":
        return [], [], [], "invalid-yaml"
    if f == "other":
        return [], [], [], "schedule-wrong-type"
    if f == "str":
        return [d["s"]], [], [], None
    if f == "list":
        if any(i is None for i in d["items"]):
            return [], [], [], "list-item-not-string"
        return list(d["items"]), [], [], None
    res = {"start": [], "stop": [], "restart": []}
    bad = None
    for k, v in d["kvs"]:
        vals = [v["s"]] if v["t"] == "s" else (list(v["items"]) if v["t"] == "l" else [])
        if k == "nonstr":
            bad = bad or "map-key-not-string"
        elif k == "unknown":
            # with values: the documented keys are start/stop/restart only — not loadable; without values the
            # property text does not say whether the file is malformed: the monitor abstains on such a file
            bad = bad or ("schedule-map-unknown-key" if vals else "abstain:unknown-key-without-values")
        elif any(i is None for i in vals):
            bad = bad or "list-item-not-string"
        elif v["t"] == "o" and v.get("y", "5") not in NULLS:
            # a wrong-typed value (number, map, bool) under start/stop/restart: the property text does not say whether
            # such a file is malformed; the monitor does not insist either way, but IF the daemon loads the file its
            # schedules are exactly those of the other keys ("maybe")
            bad = bad or "maybe:map-value-wrong-type"
        else:
            res[k] += vals          # a key without a value (null) has no schedule of that kind
    return res["start"], res["stop"], res["restart"], bad


def gen_def(rng, target, kind_w):
    """a DAG file definition; kind_w selects the class"""
    def sp():
        r = rng.random()
        if r < 0.55:
            return gen_spec(rng, target)
        if r < 0.7:
            return gen_spec(rng, target + 60 * rng.choice([1, 2, 3, -1]))
        if r < 0.8:
            return rng.choice(["* * * * *", "*/2 * * * *", "*/5 * * * *", "* * * * ?"])
        return gen_spec(rng)
    if kind_w == "invalid":
        r = rng.random()
        if r < 0.3:
            return {"form": "bad"}
        if r < 0.4:
            return {"form": "other"}
        if r < 0.7:
            return {"form": "str", "s": rng.choice(INVALID[2:])}
        if r < 0.8:
            return {"form": "list", "items": [sp(), None]}
        if r < 0.9:
            return {"form": "map", "kvs": [["start", {"t": "s", "s": sp()}], ["stop", {"t": "s", "s": rng.choice(INVALID[2:])}]]}
        return {"form": "map", "kvs": [["nonstr", {"t": "s", "s": sp()}]]}
    if kind_w == "never":
        s = rng.choice(NEVER)
        r = rng.random()
        if r < 0.4:
            return {"form": "str", "s": s}
        if r < 0.6:
            return {"form": "list", "items": [s, sp()]}
        k = rng.choice(["start", "stop", "restart"])
        if k == "start":        # YAML maps have no duplicate keys: both under one key
            return {"form": "map", "kvs": [["start", {"t": "l", "items": [s, sp()]}]]}
        return {"form": "map", "kvs": [[k, {"t": "s", "s": s}], ["start", {"t": "s", "s": sp()}]]}
    if kind_w == "double":
        s = sp()
        other = rng.choice([s, gen_spec(rng, target), "* * * * *"])
        return rng.choice([{"form": "list", "items": [s, other]},
                           {"form": "map", "kvs": [["start", {"t": "l", "items": [s, other]}]]}])
    r = rng.random()
    if r < 0.08:
        return {"form": "absent"}
    if r < 0.4:
        return {"form": "str", "s": sp()}
    if r < 0.55:
        return {"form": "list", "items": [sp() for _ in range(rng.choice([0, 1, 1, 2]))]}
    kvs = []
    for k in rng.sample(["start", "stop", "restart"], rng.randint(1, 3)):
        if rng.random() < 0.65:
            kvs.append([k, {"t": "s", "s": sp()}])
        else:
            kvs.append([k, {"t": "l", "items": [sp() for _ in range(rng.choice([0, 1, 1]))]}])
    if rng.random() < 0.08:
        kvs.append(["unknown", {"t": rng.choice(["o", "l"]), "items": []}])   # unknown key WITHOUT values: harmless
    return {"form": "map", "kvs": kvs}


def give_name(rng, d, fid, fids):
    """a share of the DAG files carry an explicit `name:` — different from the file's id (d<fid>), equal to ANOTHER
    file's id, or equal to its own; suspension and every other identity in the property go by the FILE id"""
    r = rng.random()
    if r < 0.6:
        return
    others = [f for f in fids if f != fid]
    if r < 0.75:
        d["name"] = "report%d" % fid
    elif r < 0.9 and others:
        d["name"] = "d%d" % rng.choice(others)
    else:
        d["name"] = "d%d" % fid


def predict_start(defs, fid, t, susp, code):
    """generator-side guess (own matcher) whether a start happens — only used to shape consistent histories"""
    st, _, _, bad = def_specs(defs[fid])
    if bad or fid in susp or code[0] in "re":
        return False
    if code[0] in "fxco" and int(code.split(":")[1]) // 60 * 60 >= t:
        return False
    for s in st:
        p = py_parse(s)
        if isinstance(p, PySpec) and p.matches(t):
            return True
    return False


FINAL = ["f", "x", "c", "o"]     # every label the store can return for a run that is not running: finished (success), failed
                                 # (error, legacy time format), canceled, and "none" WITH a start time


def gen_status(rng, t, prev_started):
    """status code for one DAG at tick t: running, or one of EVERY final label, each combined with a start in the same
    minute / +-1 min / earlier / later; never run; '-'; unreadable"""
    r = rng.random()
    if prev_started is not None and r < 0.7:   # consistent history: the run the daemon started is visible
        return rng.choice(["r:%d", "f:%d", "x:%d", "c:%d", "c:%d", "o:%d"]) % (prev_started + rng.randint(0, 59))
    if r < 0.27:
        return "n"
    if r < 0.32:
        return "z"
    if r < 0.36:
        return "e"
    if r < 0.48:
        return "r:%d" % (t - rng.choice([5, 70, 4000, 90000]))
    kind = rng.choice(FINAL)
    off = rng.choice([0, 0, 1, 30, 59, 60, 61, -1, -59, -60, -61, -3600, -86400, -31536000, 3600])
    return "%s:%d" % (kind, max(0, t + off))


def gen_sim(rng, cid, flavour):
    base = gen_instant(rng)
    base = max(base, 600)
    t0 = base // 60 * 60
    target = t0 + 60 * rng.choice([0, 0, 1, 1, 2, 3])
    nd = rng.randint(1, 4)
    classes = ["valid"] * nd
    if flavour == "never":
        classes[rng.randrange(nd)] = "never"
    elif flavour == "double":
        classes[rng.randrange(nd)] = "double"
    elif flavour == "invalid":
        classes.append("invalid")
        if rng.random() < 0.4:
            classes.append("invalid")
    elif flavour == "mixed":
        classes = [rng.choice(["valid", "valid", "never", "double", "invalid"]) for _ in range(nd + 1)]
    rng.shuffle(classes)
    defs = {i + 1: gen_def(rng, target, c) for i, c in enumerate(classes)}
    for f, d in defs.items():
        give_name(rng, d, f, sorted(defs))
    ops = [{"op": "file", "fid": f, "def": d} for f, d in defs.items()]
    started = {}            # fid -> second of the start the daemon is predicted to have issued
    alive_defs = dict(defs)

    def ticks(t, n):
        out = []
        for _ in range(n):
            susp = [f for f in alive_defs if rng.random() < 0.18]
            st = {}
            for f in alive_defs:
                st[str(f)] = gen_status(rng, t, started.get(f))
            for f in alive_defs:
                if predict_start(alive_defs, f, t, susp, st[str(f)]):
                    started[f] = t
            out.append({"op": "tick", "susp": susp, "st": st, "late": rng.choice([0, 0, 0, 1, 30, 59, 60, 61, 200, 4000])})
            t += 60
        return out, t
    ops.append({"op": "boot", "now0": base})
    o, t = ticks(t0, rng.randint(2, 5))
    ops += o
    segments = rng.choice([1, 2, 2, 3])
    for _ in range(segments - 1):
        r = rng.random()
        if r < 0.35:       # daemon restarted inside the minute it last ran (or the one after): same tick again
            now0 = t - 60 + rng.randint(0, 59) if rng.random() < 0.7 else t + rng.randint(0, 59)
        elif r < 0.6:      # back within minutes
            now0 = t + rng.randint(60, 600)
        else:              # long outage: hours to years, or another interesting instant
            now0 = rng.choice([t + rng.randint(3600, 86400 * 900), max(gen_instant(rng), 600)])
        if flavour in ("events", "mixed") and rng.random() < 0.8:
            # files added / edited / removed while the daemon runs (watcher)
            for _e in range(rng.randint(1, 3)):
                k = rng.random()
                if k < 0.45:
                    fid = max(alive_defs) + 1 if alive_defs else 1
                    d = gen_def(rng, t + 60, rng.choice(["valid", "valid", "invalid", "double"]))
                    give_name(rng, d, fid, sorted(set(alive_defs) | {fid}))
                    ops.append({"op": "file", "fid": fid, "def": d}); ops.append({"op": "ev", "kind": "write", "fid": fid})
                    if def_specs(d)[3] is None and all(py_parse(s) != "err" for s in sum(def_specs(d)[:3], [])):
                        alive_defs[fid] = d
                elif k < 0.8 and alive_defs:
                    fid = rng.choice(sorted(alive_defs))
                    d = gen_def(rng, t + 60, rng.choice(["valid", "invalid"]))
                    give_name(rng, d, fid, sorted(alive_defs))
                    ops.append({"op": "file", "fid": fid, "def": d}); ops.append({"op": "ev", "kind": "write", "fid": fid})
                    if def_specs(d)[3] is None and all(py_parse(s) != "err" for s in sum(def_specs(d)[:3], [])):
                        alive_defs[fid] = d
                elif alive_defs:
                    fid = rng.choice(sorted(alive_defs))
                    ops.append({"op": "rm", "fid": fid}); ops.append({"op": "ev", "kind": "remove", "fid": fid})
                    alive_defs.pop(fid, None)
            o, t = ticks(t, rng.randint(1, 3))
            ops += o
            continue
        ops.append({"op": "boot", "now0": now0})
        t = now0 // 60 * 60
        o, t = ticks(t, rng.randint(1, 4))
        ops += o
    return {"k": "sim", "id": cid, "flavour": flavour, "ops": ops}


def gen_sim_emptykeys(rng, cid):
    """schedule maps whose keys are valued, null-valued (`restart:` / `start: ~`), wrong-typed (`stop: 5`, `start: {}`, …),
    an empty list or absent, in every combination — each file loaded MANY times (daemon restarts, watcher reloads of the
    same content): Go iterates the schedule map in a random order per load"""
    base = max(gen_instant(rng), 600)
    t = base // 60 * 60
    hour = datetime.datetime.fromtimestamp(t, UTC).hour
    minute = datetime.datetime.fromtimestamp(t, UTC).minute

    def firing():
        return rng.choice(["* * * * *", "*/1 * * * *", "* * * * ?", "* %d-%d * * *" % (max(0, hour - 1), min(23, hour + 1)), "* * * * 0-6"])

    def quiet():
        return "%d %d * * *" % ((minute + 30) % 60, (hour + 12) % 24)

    def value():
        r = rng.random()
        if r < 0.32:
            return {"t": "s", "s": firing()}
        if r < 0.42:
            return {"t": "l", "items": [firing()] + ([quiet()] if rng.random() < 0.4 else [])}
        if r < 0.5:
            return {"t": "s", "s": quiet()}
        if r < 0.72:
            return {"t": "o", "y": rng.choice(NULLS)}
        if r < 0.9:
            return {"t": "o", "y": rng.choice(WRONG_TYPED)}
        return {"t": "l", "items": []}
    defs = {}
    for fid in range(1, rng.randint(1, 3) + 1):
        while True:
            keys = rng.sample(["start", "stop", "restart"], rng.choice([2, 2, 3, 3]))
            kvs = [[k, value()] for k in keys]
            if any(v["t"] == "o" for _, v in kvs) and any(v["t"] in "sl" and v.get("items", [1]) for _, v in kvs):
                break
        defs[fid] = {"form": "map", "kvs": kvs}
        give_name(rng, defs[fid], fid, [fid])
    if rng.random() < 0.25:         # a list with a non-string element next to them: that file is not loadable
        defs[len(defs) + 1] = {"form": "map", "kvs": [["start", {"t": "l", "items": [firing(), None]}], ["stop", {"t": "o", "y": ""}]]}
    ops = [{"op": "file", "fid": f, "def": d} for f, d in defs.items()]
    alive = False
    for _ in range(rng.randint(8, 12)):
        if alive and rng.random() < 0.3:
            fid = rng.choice(sorted(defs))
            ops.append({"op": "ev", "kind": "write", "fid": fid})        # same content again: the watcher reloads the file
        else:
            if alive and rng.random() < 0.4:
                t -= 60                                                  # restarted within the minute just run: same tick again
            ops.append({"op": "boot", "now0": t + rng.randint(0, 59)})
            alive = True
        st = {str(f): rng.choice(["n", "r:%d" % (t - 500), "f:%d" % (t - 86400), "c:%d" % (t - 61)]) for f in defs}
        ops.append({"op": "tick", "susp": [f for f in defs if rng.random() < 0.08], "st": st, "late": rng.choice([0, 1, 61])})
        t += 60
    return {"k": "sim", "id": cid, "flavour": "emptykeys", "ops": ops}


def corpus():
    """regression cases, always replayed on the real daemon first: the former witnesses of F8 (now: no call), F10 (now:
    exactly one Start), F9 / F26 (now: load errors), same-minute daemon restarts, empty bit set"""
    T = ts(2024, 1, 1, 0, 7)
    tick = lambda st=None, susp=(): {"op": "tick", "susp": list(susp), "st": st or {}, "late": 0}
    c = []
    c.append({"k": "sim", "id": "w-F8", "flavour": "corpus", "ops": [
        {"op": "file", "fid": 1, "def": {"form": "str", "s": "0 0 31 2 *"}},
        {"op": "file", "fid": 2, "def": {"form": "map", "kvs": [["restart", {"t": "s", "s": "0 0 31 2 *"}], ["stop", {"t": "s", "s": "0 0 30 2 *"}]]}},
        {"op": "boot", "now0": T + 3}, tick({"1": "n", "2": "r:%d" % (T - 500)}), tick({"1": "f:%d" % (T - 86400), "2": "n"})]})
    c.append({"k": "sim", "id": "w-F10", "flavour": "corpus", "ops": [
        {"op": "file", "fid": 1, "def": {"form": "list", "items": ["* * * * *", "* * * * *"]}},
        {"op": "file", "fid": 2, "def": {"form": "str", "s": "*/15 0 1,15 * 1-5"}},
        {"op": "boot", "now0": T + 3}, tick(), tick(), {"op": "boot", "now0": T + 8 * 60 + 1}, tick(), tick({"2": "f:%d" % (T + 8 * 60 + 70)})]})
    c.append({"k": "sim", "id": "w-F9", "flavour": "corpus", "ops": [
        {"op": "file", "fid": 1, "def": {"form": "str", "s": "* * * * *"}},
        {"op": "file", "fid": 2, "def": {"form": "map", "kvs": [["unknown", {"t": "s", "s": "* * * * *"}]]}},
        {"op": "boot", "now0": T + 3}, tick(), tick()]})
    c.append({"k": "sim", "id": "w-F26", "flavour": "corpus", "ops": [
        {"op": "file", "fid": 1, "def": {"form": "str", "s": "* * * * *"}},
        {"op": "file", "fid": 2, "def": {"form": "str", "s": "TZ=UTC"}},
        {"op": "boot", "now0": T + 3}, tick()]})
    c.append({"k": "sim", "id": "w-same-minute-restart", "flavour": "corpus", "ops": [
        {"op": "file", "fid": 1, "def": {"form": "str", "s": "7 0 1 1 *"}},
        {"op": "boot", "now0": T + 3}, tick({"1": "n"}),
        {"op": "boot", "now0": T + 40}, tick({"1": "r:%d" % (T + 4)}),
        {"op": "boot", "now0": T + 50}, tick({"1": "f:%d" % (T + 4)}),
        {"op": "boot", "now0": T + 55}, tick({"1": "f:%d" % (T - 1)})]})
    # the tick for minute T evaluated again (daemon restarted within T) after the run started in T ended with EVERY final label
    ops = [{"op": "file", "fid": 1, "def": {"form": "str", "s": "7 0 1 1 *"}}, {"op": "boot", "now0": T + 3}, tick({"1": "n"})]
    for i, k in enumerate(["f", "x", "c", "o"]):
        ops += [{"op": "boot", "now0": T + 20 + 5 * i}, tick({"1": "%s:%d" % (k, T + 4)})]          # started in T: refused
    for i, k in enumerate(["f", "x", "c", "o"]):
        ops += [{"op": "boot", "now0": T + 42 + 4 * i}, tick({"1": "%s:%d" % (k, T - 1)})]          # started before T: due
    c.append({"k": "sim", "id": "w-same-minute-every-final-label", "flavour": "corpus", "ops": ops})
    # suspension goes by FILE id whatever `name:` says: d1 (name: report) suspended, d2 carries d1's id as its name,
    # d3 carries its own; then d2 suspended instead
    ev = "* * * * *"
    c.append({"k": "sim", "id": "w-name-vs-file-id", "flavour": "corpus", "ops": [
        {"op": "file", "fid": 1, "def": {"form": "str", "s": ev, "name": "report"}},
        {"op": "file", "fid": 2, "def": {"form": "map", "kvs": [["start", {"t": "s", "s": ev}], ["restart", {"t": "s", "s": ev}]], "name": "d1"}},
        {"op": "file", "fid": 3, "def": {"form": "str", "s": ev, "name": "d3"}},
        {"op": "boot", "now0": T + 3}, tick(susp=[1]), tick(susp=[2]), tick(susp=[3]), tick(susp=[1, 2, 3]), tick()]})
    # keys without a value / with a wrong-typed value have NO schedule of that kind, on every one of many loads
    ops = [{"op": "file", "fid": 1, "def": {"form": "map", "kvs": [["start", {"t": "s", "s": ev}], ["restart", {"t": "o", "y": ""}]]}},
           {"op": "file", "fid": 2, "def": {"form": "map", "kvs": [["stop", {"t": "s", "s": ev}], ["start", {"t": "o", "y": "~"}],
                                                                   ["restart", {"t": "o", "y": "null"}]]}}]
    for i in range(12):
        ops += [{"op": "boot", "now0": T + 3 + 4 * i}, tick({"1": "n", "2": "r:%d" % (T - 500)})]
    c.append({"k": "sim", "id": "w-empty-map-keys", "flavour": "corpus", "ops": ops})
    c.append({"k": "sim", "id": "w-empty-set", "flavour": "corpus", "ops": [
        {"op": "file", "fid": 1, "def": {"form": "str", "s": ", * * * *"}},
        {"op": "boot", "now0": T + 3}, tick({"1": "n"})]})
    return c


def watcher_panic_case():
    """a file that used to panic the loader (F9) written while the daemon runs: before the fix this killed the harness
    process from the watcher goroutine, hence it is fed last and missing output lines are read as `dead`"""
    T = ts(2024, 1, 1, 0, 7)
    return {"k": "sim", "id": "w-F9-watcher", "flavour": "corpus-last", "ops": [
        {"op": "file", "fid": 1, "def": {"form": "str", "s": "* * * * *"}},
        {"op": "boot", "now0": T + 3}, {"op": "tick", "susp": [], "st": {}, "late": 0},
        {"op": "file", "fid": 2, "def": {"form": "map", "kvs": [["unknown", {"t": "s", "s": "* * * * *"}]]}},
        {"op": "ev", "kind": "write", "fid": 2},
        {"op": "tick", "susp": [], "st": {}, "late": 0}]}


# =====================================================================================================
#  rendering
# =====================================================================================================

def harness_line(c):
    if c["k"] == "sim":
        ops = []
        for o in c["ops"]:
            o = dict(o)
            if o["op"] == "file":
                o["yaml"] = render_yaml(o["def"]).encode().hex()
            ops.append(o)
        return json.dumps({"k": "sim", "id": c["id"], "ops": ops})
    if c["k"] in ("spec", "next"):
        d = dict(c); d["spec"] = c["spec"].encode("utf-8").hex()
        return json.dumps(d)
    return json.dumps(c)


def driver_lines(c):
    if c["k"] == "spec":
        return ["spec %s %d %s" % (c["id"], c["min"], hx(c["spec"]))]
    if c["k"] == "next":
        return ["next %s %d %s" % (c["id"], c["sec"], hx(c["spec"]))]
    if c["k"] == "civil":
        return ["civil %s %d" % (c["id"], c["day"])]
    if c["k"] == "ticks":
        return ["ticks %s %d %s" % (c["id"], c["now0"], ",".join(map(str, c["nows"])))]
    out = ["begin " + c["id"]]
    for o in c["ops"]:
        if o["op"] == "file":
            out.append("file %d %s" % (o["fid"], render_def(o["def"])))
        elif o["op"] == "rm":
            out.append("rm %d" % o["fid"])
        elif o["op"] == "boot":
            out.append("boot %d" % o["now0"])
        elif o["op"] == "ev":
            out.append("ev %s %d" % (o["kind"], o["fid"]))
        elif o["op"] == "tick":
            out.append("tick %s %s" % (",".join(map(str, o["susp"])) or "-",
                                       " ".join("%s:%s" % (k, v) for k, v in sorted(o["st"].items()))))
    return out


def n_outputs(c):
    return sum(1 for o in c["ops"] if o["op"] in ("boot", "ev", "tick")) if c["k"] == "sim" else 1


def norm_model_line(c, line):
    """the harness prints `ev ok` without the loaded list; ticks come without the programmed wait"""
    w = line.split(" ")
    if c["k"] == "sim" and len(w) >= 3 and w[1] == "ev" and w[2] == "ok":
        return " ".join(w[:3])
    if c["k"] == "ticks":
        return " ".join([w[0]] + [x.split(":")[0] for x in w[1:]])
    return line


class HarnessHang(Exception):
    def __init__(self, lines):
        self.lines = lines


def run_harness(binp, cases, timeout=None):
    """a whole quick stream (~1000 cases) takes ~30 s; a harness that does not come back is a hang of the code under test"""
    hin = "\n".join(harness_line(c) for c in cases) + "\n"
    env = dict(os.environ, TZ="UTC")
    if timeout is None:
        timeout = 90 + 0.3 * len(cases)
    try:
        p = subprocess.run([binp], input=hin, stdout=subprocess.PIPE, stderr=subprocess.PIPE, text=True, timeout=timeout, env=env)
    except subprocess.TimeoutExpired as e:
        out = e.stdout or ""
        if isinstance(out, bytes):
            out = out.decode("utf-8", "replace")
        raise HarnessHang(out.split("\n")[:-1])
    return p.returncode, p.stdout.split("\n")[:-1] if p.stdout else [], p.stderr


def find_hanging_case(binp, cases, lines):
    """the first case whose answers are incomplete in what the harness printed before it stopped; confirmed alone"""
    i = 0
    for c in cases:
        n = n_outputs(c)
        if i + n > len(lines):
            try:
                run_harness(binp, [c], timeout=60)
                return None
            except HarnessHang:
                return c
        i += n
    return None


def split_outputs(cases, lines):
    """lines grouped per case; a case whose lines are missing (process died) gets what is there"""
    res, i = [], 0
    for c in cases:
        n = n_outputs(c)
        res.append(lines[i:i + n])
        i += n
    return res


# =====================================================================================================
#  the monitor of the property itself (on the implementation's answers; own matcher)
# =====================================================================================================

BAD_CLASS_SIG = {"schedule-map-unknown-key": "schedule-map-unknown-key", "tz-prefix-without-space": "tz-prefix-without-space"}


def file_class(d):
    """(loadable?, why-not) by the documented forms + own grammar; None = the monitor abstains on this file"""
    st, sp, rs, bad = def_specs(d)
    if bad and bad.startswith("abstain:"):
        return None, bad
    if bad and not bad.startswith("maybe:"):
        return False, bad
    verdicts = [py_parse(s) for s in st + sp + rs]
    if any(v == "err" for v in verdicts):
        return False, "invalid-cron"
    if any(v is None for v in verdicts):
        for s in st + sp + rs:
            if (s.startswith("TZ=") or s.startswith("CRON_TZ=")) and " " not in s:
                return False, "tz-prefix-without-space"
        return None, "non-standard-expression"
    if bad:
        return "maybe", bad
    return True, None


def leaked_from(d, kind, t, P):
    """the file is a schedule map whose `kind` key has no value (null / wrong-typed) while a schedule under ANOTHER key matches t"""
    if d.get("form") != "map":
        return None
    if not any(k == kind and v["t"] == "o" for k, v in d["kvs"]):
        return None
    for k, v in d["kvs"]:
        if k != kind and k in ("start", "stop", "restart") and v["t"] in "sl":
            vals = [v["s"]] if v["t"] == "s" else [i for i in v["items"] if i is not None]
            if any(isinstance(P(x), PySpec) and P(x).matches(t) for x in vals):
                return k
    return None


def monitor_sim(chk, c, outs, counters):
    files, loaded = {}, None      # staged definitions; loaded: fid -> definition the daemon should be using (None = daemon down)
    abstain = set()               # fids whose expressions the monitor's grammar does not cover
    t = None
    bad_present = []
    oi = 0
    pspec = {}

    def P(s):
        if s not in pspec:
            pspec[s] = py_parse(s)
        return pspec[s]
    for o in c["ops"]:
        if o["op"] == "file":
            files[o["fid"]] = o["def"]; continue
        if o["op"] == "rm":
            files.pop(o["fid"], None); continue
        line = outs[oi] if oi < len(outs) else "%s %s dead" % (c["id"], o["op"])
        oi += 1
        w = line.split(" ")
        if o["op"] == "boot":
            t = o["now0"] // 60 * 60
            loaded, abstain, bad_present = {}, set(), []
            got_now = set()
            if w[2] == "ok" and len(w) > 3 and w[3] != "-":
                got_now = {int(x) for x in w[3].split(",")}
            for fid, d in sorted(files.items()):
                ok, why = file_class(d)
                if ok is None:
                    abstain.add(fid)
                elif ok == "maybe":
                    if fid in got_now:          # loaded: then its schedules must be honoured exactly
                        loaded[fid] = d
                elif ok:
                    loaded[fid] = d
                else:
                    bad_present.append((fid, why))
            if w[2] == "dead":
                cls = sorted({why for _, why in bad_present}) or ["no-bad-file"]
                for cl in cls:
                    chk.violation("C09:bad-file-kills-daemon:" + cl,
                                  "daemon dies at start-up (no DAG is scheduled any more) because one file in the DAGs directory is bad: " + cl, c)
                counters["dead"] += 1
                loaded = None
                continue
            got = set() if w[3] == "-" else {int(x) for x in w[3].split(",")}
            exp = set(loaded)
            if (got - abstain) != exp:
                chk.violation("C09:loaded-set-differs", "after start-up the daemon schedules files %s, expected %s (bad files present: %s)" %
                              (sorted(got), sorted(exp), bad_present), c)
            continue
        if o["op"] == "ev":
            if loaded is None:
                continue
            if w[2] != "ok":
                d = files.get(o["fid"])
                ok, why = file_class(d) if d else (False, "?")
                chk.violation("C09:bad-file-kills-daemon:%s:watcher" % (why or "?"),
                              "daemon dies (watcher goroutine) when a bad file (%s) is written into the DAGs directory while it runs" % why, c)
                counters["dead"] += 1
                loaded = None
                continue
            if o["kind"] == "remove":
                loaded.pop(o["fid"], None); abstain.discard(o["fid"])
            else:
                d = files[o["fid"]]
                ok, why = file_class(d)
                if ok is None or ok == "maybe":
                    abstain.add(o["fid"]); loaded.pop(o["fid"], None)
                elif ok:
                    loaded[o["fid"]] = d; abstain.discard(o["fid"])
                # not loadable: the previous definition (if any) stays in force
            continue
        # ---- tick
        if loaded is None:
            if w[2] != "dead":
                pass
            t = (t or 0) + 60
            continue
        if w[2] == "dead":
            chk.violation("C09:daemon-dead-at-tick", "tick not executed", c); continue
        if len(w) > 1 and w[1] == "harness-panic":
            # the daemon's own tick (Scheduler.run -> entryReader.Read -> …) panicked: every DAG of the directory is down
            chk.violation("C09:daemon-crashes-at-tick", "the scheduler's tick panicked (%s): no DAG is scheduled any more - after files were added / changed in the DAGs directory" % " ".join(w[2:])[:160], c)
            return
        got_t = int(w[2])
        if got_t != t:
            chk.violation("C09:tick-sequence", "tick %d run, expected minute %d" % (got_t, t), c)
        calls = [] if w[3] == "-" else w[3:]
        counters["sim_ticks"] += 1
        for fid, d in loaded.items():
            st, sp, rs, _ = def_specs(d)
            code = o["st"].get(str(fid), "n")
            susp = fid in o["susp"]
            nS, nT, nR = calls.count("S%d" % fid), calls.count("T%d" % fid), calls.count("R%d" % fid)
            mS = [s for s in st if P(s).matches(t)]
            mT = [s for s in sp if P(s).matches(t)]
            mR = [s for s in rs if P(s).matches(t)]
            counters["dag_ticks"] += 1
            key = (tuple(st), tuple(sp), tuple(rs), t, code, susp)
            if mS or mT or mR or nS or nT or nR:
                chk.nontrivial.add(key)
            running = code[0] == "r"
            last = int(code.split(":")[1]) if code[0] in "rfxco" else (-(10 ** 12) if code == "z" else None)
            readable = code != "e"
            counters["start_calls"] += nS; counters["stop_calls"] += nT; counters["restart_calls"] += nR
            if mS:
                counters["start_schedule_matches"] += 1
                if susp:
                    counters["match_but_suspended"] += 1
                elif running:
                    counters["match_but_running"] += 1
                elif last is not None and last // 60 * 60 == t:
                    counters["match_but_started_same_minute"] += 1
                    counters["same_minute_" + code[0]] = counters.get("same_minute_" + code[0], 0) + 1
                elif last is not None and last // 60 * 60 > t:
                    counters["match_but_started_later"] += 1
                elif readable:
                    counters["match_and_due"] += 1
            if mT:
                counters["stop_schedule_matches"] += 1
            if mR:
                counters["restart_schedule_matches"] += 1

            def zero_next(specs):
                return any(not P(s).ever_within(t - 1) for s in specs if not P(s).matches(t))
            # start clause
            if readable:
                exp_start = bool(mS) and not susp and not running and not (last is not None and last // 60 * 60 >= t)
                if nS and not exp_start:
                    if not mS and not susp and zero_next(st):
                        chk.violation("C09:start-without-match:next-is-zero-time",
                                      "Start issued at a minute no start schedule matches: a schedule that never fires within 5 years "
                                      "(e.g. %r) gets the zero time from Next and is invoked at every tick" % st[0], c)
                    elif susp and mS and d.get("name") not in (None, "d%d" % fid):
                        chk.violation("C09:suspended-dag-started:explicit-name-differs-from-file-id",
                                      "DAG file d%d.yaml (explicit `name: %s`) is suspended (flag under its file id, as the API writes it) "
                                      "but is still started at a scheduled minute" % (fid, d["name"]), c)
                    elif mS and not susp and not running and last is not None and last // 60 * 60 >= t:
                        label = {"f": "finished", "x": "failed", "c": "canceled", "o": "none"}.get(code[0], code[0])
                        chk.violation("C09:started-twice-in-the-minute:latest-run-" + label,
                                      "Start issued for d%d at minute %d although its latest run (status %s) started at %d, i.e. in or after "
                                      "that minute: the minute is run twice" % (fid, t, label, last), c)
                    elif not mS and leaked_from(d, "start", t, P):
                        chk.violation("C09:start-not-due:valueless-key-got-another-keys-schedule",
                                      "Start issued for d%d at a minute no start schedule matches: its `start:` key has no value, the minute "
                                      "matches its `%s:` schedule (differs from load to load of the same file)" % (fid, leaked_from(d, "start", t, P)), c)
                    else:
                        chk.violation("C09:start-not-due", "Start issued for d%d at %d: matching=%s suspended=%s status=%s" % (fid, t, mS, susp, code), c)
                if exp_start and nS == 0:
                    nm = d.get("name")
                    if nm is not None and nm != "d%d" % fid and any(nm == "d%d" % f2 for f2 in o["susp"]):
                        chk.violation("C09:missed-start:another-dag-suspended-under-its-name",
                                      "scheduled minute of d%d.yaml (explicit `name: %s`) missed: it is not suspended, but the DAG whose FILE id "
                                      "equals that name is" % (fid, nm), c)
                    else:
                        chk.violation("C09:missed-start", "no Start for d%d at %d although %s matches, not suspended, status=%s" % (fid, t, mS, code), c)
                if nS > 1:
                    if exp_start and nS > len(mS) and zero_next(st):
                        chk.violation("C09:start-without-match:next-is-zero-time",
                                      "more Start calls (%d) than matching start schedules (%d): the extra one comes from a schedule that never "
                                      "fires within 5 years (zero Next, invoked at every tick)" % (nS, len(mS)), c)
                    elif exp_start and len(mS) > 1:
                        chk.violation("C09:double-start:two-schedules-same-minute",
                                      "two start schedules of one DAG matching the same minute ⇒ %d concurrent Start calls (both pass the guard)" % nS, c)
                    elif exp_start or mS:
                        chk.violation("C09:double-start", "%d Start calls for d%d at %d, matching=%s" % (nS, fid, t, mS), c)
                # stop clause
                exp_stop = bool(mT) and not susp and running
                if nT and not exp_stop:
                    if not mT and not susp and running and zero_next(sp):
                        chk.violation("C09:stop-without-match:next-is-zero-time",
                                      "Stop issued for a running DAG at a minute no stop schedule matches (never-firing schedule, zero Next)", c)
                    elif not mT and leaked_from(d, "stop", t, P):
                        chk.violation("C09:stop-not-due:valueless-key-got-another-keys-schedule",
                                      "Stop issued for running d%d at a minute no stop schedule matches: its `stop:` key has no value, the minute "
                                      "matches its `%s:` schedule (differs from load to load of the same file)" % (fid, leaked_from(d, "stop", t, P)), c)
                    else:
                        chk.violation("C09:stop-not-due", "Stop issued for d%d at %d: matching=%s suspended=%s status=%s" % (fid, t, mT, susp, code), c)
                if exp_stop and nT == 0:
                    chk.violation("C09:missed-stop", "no Stop for running d%d at %d although %s matches" % (fid, t, mT), c)
                if nT > 1:
                    chk.violation("C09:double-stop" + (":two-schedules-same-minute" if len(mT) > 1 else ""),
                                  "%d Stop calls for d%d in one minute (matching stop schedules: %s)" % (nT, fid, mT), c)
            # restart clause
            exp_restart = bool(mR) and not susp
            if nR and not exp_restart:
                if not mR and not susp and zero_next(rs):
                    chk.violation("C09:restart-without-match:next-is-zero-time",
                                  "Restart issued at a minute no restart schedule matches (never-firing schedule, zero Next) — every minute", c)
                elif not mR and leaked_from(d, "restart", t, P):
                    chk.violation("C09:restart-not-due:valueless-key-got-another-keys-schedule",
                                  "Restart issued for d%d at a minute no restart schedule matches: its `restart:` key has no value, the minute "
                                  "matches its `%s:` schedule (differs from load to load of the same file)" % (fid, leaked_from(d, "restart", t, P)), c)
                else:
                    chk.violation("C09:restart-not-due", "Restart issued for d%d at %d: matching=%s suspended=%s" % (fid, t, mR, susp), c)
            if exp_restart and nR == 0:
                chk.violation("C09:missed-restart", "no Restart for d%d at %d although %s matches" % (fid, t, mR), c)
            if nR > 1:
                chk.violation("C09:double-restart" + (":two-schedules-same-minute" if len(mR) > 1 else ""),
                              "%d Restart calls for d%d in one minute (matching restart schedules: %s)" % (nR, fid, mR), c)
        # calls for files that should not be scheduled at all
        for call in calls:
            fid = int(call[1:])
            if fid not in loaded and fid not in abstain:
                chk.violation("C09:call-for-unscheduled-file", "%s issued for a file that is not loadable / was removed" % call, c)
        t += 60


# =====================================================================================================
#  run
# =====================================================================================================

def run(chk, replay):
    chk.trusted = common.TRUSTED_COMMON + [
        "robfig/cron v3.0.1 parser and SpecSchedule.Next: modelled by an independent Lean parser / search (BdModel.Cron.Parse, Daemon.next) "
        "and validated differentially on every run (accept/reject, bit sets, three successive Next from random instants 1970-2100)",
        "civil calendar (BdModel.Cron.Civil) validated against Go's time package on every run",
        "the recording fake client.Client, the verif-tagged hook file go/hooks/scheduler_hooks_verif.go (exported doors only) and goroutine-drain "
        "detection by runtime.NumGoroutine",
        "gopkg.in/yaml.v2 + mapstructure decode of the `schedule:` value (the model starts at the decoded value)"]
    chk.assumptions = [
        "UTC only (time.Local = UTC): time zones / DST are not modelled; named zones other than UTC in a TZ= prefix are outside the model",
        "every invoked entry reads the DAG status as it is when the tick begins (the fake client answers per tick)",
        "the status of a DAG is readable (GetLatestStatus error ⇒ the monitor abstains on start/stop for that DAG and tick)",
        "month / weekday names are lower-cased as ASCII",
        "a DAG is identified by its file (id = base name without extension) — in the suspend flags, the status script and the recorded calls — never by `name:`",
        "schedule maps carry at most one malformed entry (Go's map iteration order decides which one is seen first otherwise)"]
    common.lean_obligations(chk, "BdModel/Props/C09.lean", dict(TIE, Hist=None))
    import hist as _hist
    if replay and "hist_case" in json.load(open(replay)).get("case", {}):
        _hist.replay_big_record(chk, "C09", "the daemon's start guard reads the latest run (status, start time) from the store", json.load(open(replay))["case"]["hist_case"]); return
    if not replay:
        _hist.big_record_leg(chk, "C09", "the daemon's start guard reads the latest run (status, start time) from the store")
    binp, out = common.build_harness("cron")
    if not binp:
        chk.oblige("harness-build:cron", False, out[-3000:]); return
    chk.oblige("harness-build:cron", True)
    # ---- the guards answered by the REAL client over real stores (no agent socket): x_c09_real
    import x_c09_real
    if replay and "real_case" in json.load(open(replay)).get("case", {}):
        x_c09_real.replay(chk, binp, json.load(open(replay))["case"]["real_case"]); return
    if not replay:
        x_c09_real.leg(chk, binp)
    real_stats = dict(chk.stats or {})
    rng = chk.rng
    quick = chk.tier == "quick"
    K = 1 if quick else 10
    cases = []
    if replay:
        rc = json.load(open(replay))["case"]
        cases = [rc]
    else:
        cases += corpus()
        # ---- parser / matcher / Next stream
        pool = []
        for _ in range(300 * K):
            pool.append(gen_spec(rng))
        for _ in range(120 * K):
            pool.append(gen_spec(rng, gen_instant(rng) // 60 * 60))
        pool += NEVER + LEAP_ONLY + QUIRKS + INVALID
        for _ in range(100 * K):
            pool.append(mutate(rng, rng.choice(pool[:200])))
        n = 0
        for s in pool:
            if "\n" in json.dumps(s):
                continue
            inst = gen_instant(rng)
            cases.append({"k": "spec", "id": "p%d" % n, "min": inst // 60, "spec": s}); n += 1
            if s in (", * * * *", "* * * * ,"):
                continue        # empty minute set: a full 6-year linear scan per Next in the model — one corpus case covers it
            cases.append({"k": "next", "id": "n%d" % n, "sec": inst, "spec": s}); n += 1
        for s in NEVER + LEAP_ONLY:
            for inst in (ts(2096, 3, 1), ts(2099, 6, 1), ts(2095, 12, 31, 23, 59, 59), ts(2096, 2, 28, 23, 59, 59), ts(2024, 1, 1)):
                cases.append({"k": "next", "id": "n%d" % n, "sec": inst, "spec": s}); n += 1
        # ---- civil calendar vs Go's time
        for i in range(300 * K):
            cases.append({"k": "civil", "id": "c%d" % i, "day": rng.choice([rng.randint(0, 157000), gen_instant(rng) // 86400])})
        # ---- the real loop start() under a scripted (late / bunched) clock
        for i in range(12 * K):
            now0 = gen_instant(rng)
            t = now0 // 60 * 60
            nows = []
            for _ in range(rng.randint(1, 12)):
                t += 60
                nows.append(t + rng.choice([0, 0, 1, 59, 60, 61, 125, 600, 3600, 86400, 86400 * 40]))   # ≥ next tick: fires at once
            cases.append({"k": "ticks", "id": "t%d" % i, "now0": now0, "nows": nows})
        # ---- daemon simulations
        flav = ["plain"] * 5 + ["never"] * 2 + ["double"] * 2 + ["invalid"] * 3 + ["events"] * 3 + ["mixed"] * 2
        for i in range(240 * K):
            cases.append(gen_sim(rng, "s%d" % i, flav[i % len(flav)]))
        for i in range(40 * K):
            cases.append(gen_sim_emptykeys(rng, "k%d" % i))
        cases.append(watcher_panic_case())      # a loader panic in the watcher goroutine would kill the harness process: must be last

    try:
        rc, hlines, herr = run_harness(binp, cases)
    except HarnessHang as hh:
        c = find_hanging_case(binp, cases, hh.lines)
        if c is None:
            # slow, not stuck (e.g. every tick runs into the drain timeout): judge the cases that were answered
            k, i = 0, 0
            for cc in cases:
                if i + n_outputs(cc) > len(hh.lines):
                    break
                i += n_outputs(cc); k += 1
            chk.oblige("harness-run:cron (comes back)", False,
                       "the harness answered only %d of %d cases in the time a whole stream takes many times over" % (k, len(cases)))
            if k == 0:
                return
            cases, rc, hlines, herr = cases[:k], 0, hh.lines[:i], ""
        else:
            chk.violation("C09:daemon-does-not-come-back:" + c["k"] + (":" + c.get("flavour", "") if c.get("flavour") else ""),
                          "the real scheduler code did not come back from this case within 60 s (a whole stream takes ~30 s): "
                          "the loop that computes / waits for the next tick spins or blocks", {"case": c})
            return
    ndrain = sum(1 for l in hlines if "!drain-timeout" in l)
    if ndrain:
        chk.oblige("harness-drain (every goroutine of a tick returned before the tick was read out)", False,
                   "%d ticks ended by the drain timeout, e.g. %s" % (ndrain, [l for l in hlines if "!drain-timeout" in l][:2]))
        hlines = [l.replace(" !drain-timeout", "") for l in hlines]
    houts = split_outputs(cases, hlines)
    last_is_killer = bool(cases) and cases[-1].get("flavour") == "corpus-last"
    if rc != 0 and not (last_is_killer and all(len(o) == n_outputs(c) for c, o in zip(cases[:-1], houts[:-1]))):
        chk.oblige("harness-run:cron", False, "rc=%d\n%s" % (rc, herr[-3000:])); return
    chk.oblige("harness-run:cron", True)
    din = "\n".join(l for c in cases for l in driver_lines(c)) + "\n"
    rcd, dout, derr = common.run_driver("cron", din, timeout=3000)
    if rcd != 0:
        chk.oblige("driver-run:cron", False, derr[-2000:]); return
    douts = split_outputs(cases, dout.split("\n")[:-1])

    # ---- correspondence
    dis_by_kind = {}
    t_retry0 = time.time()
    dist = {"spec-ok": 0, "spec-err": 0, "spec-panic": 0, "spec-fires": 0, "next-zero": 0, "sim": 0, "ticks": 0, "civil": 0, "next": 0}
    for c, ho, mo in zip(cases, houts, douts):
        chk.evaluations += 1
        want = n_outputs(c)
        ho = list(ho) + ["%s %s dead" % (c["id"], o["op"]) for o in [o for o in c.get("ops", []) if o["op"] in ("boot", "ev", "tick")][len(ho):]]
        mo = [norm_model_line(c, l) for l in mo]
        if c["k"] == "spec":
            w = ho[0].split(" ")
            dist["spec-" + (w[1] if w[1] in ("ok", "err", "panic") else "err")] += 1
            if w[1] == "ok" and w[-1] == "1":
                dist["spec-fires"] += 1
                chk.nontrivial.add(("spec", c["spec"], c["min"]))
            p = py_parse(c["spec"])
            if isinstance(p, PySpec) or p == "err":
                agree = (w[1] == "err") if p == "err" else (w[1] == "ok" and (w[-1] == "1") == p.matches(c["min"] * 60))
                if not agree:
                    chk.oblige("monitor-matcher-vs-robfig:%s" % c["id"], False,
                               "the monitor's own cron matcher and robfig disagree on %r at minute %d: impl=%s py=%s" %
                               (c["spec"], c["min"], ho[0], p if p == "err" else p.matches(c["min"] * 60)))
        elif c["k"] == "next":
            dist["next"] += 1
            if " 0" in ho[0]:
                dist["next-zero"] += 1
            chk.nontrivial.add(("next", c["spec"], c["sec"]))
        else:
            dist[c["k"]] += 1
        if ho != mo:
            # timing-sensitive (watcher) cases are retried alone before they count
            # (only while disagreements are rare: a systematic difference is not a timing matter, and with a slow
            #  implementation the retries would eat the time the monitor below needs)
            if c["k"] == "sim" and c.get("flavour") != "corpus-last" and dis_by_kind.get("sim", 0) < 6 and time.time() - t_retry0 < 150:
                same = False
                for _ in range(2):
                    try:
                        _, hl2, _ = run_harness(binp, [c], timeout=60)
                    except HarnessHang:
                        break
                    if hl2 == mo:
                        same = True; ho = hl2; break
                if same:
                    houts[cases.index(c)] = ho
                    continue
            chk.disagreements += 1
            dis_by_kind[c["k"]] = dis_by_kind.get(c["k"], 0) + 1
            if dis_by_kind[c["k"]] <= 3:
                diff = [(a, b) for a, b in zip(ho, mo) if a != b][:3]
                chk.oblige("correspondence:cron-%s:%s" % (c["k"], c["id"]), False,
                           "impl vs model differ: %s\ncase=%s" % (diff or (ho, mo), json.dumps(c)[:1500]))
    chk.disagreements_checked = chk.disagreements
    if not dis_by_kind:
        chk.oblige("correspondence:cron (parser bits + fires, 3x Next, civil calendar, real-loop tick sequence, per-tick client calls: impl = model on every case)", True)

    # ---- the property itself, on the implementation
    counters = {k: 0 for k in ("sim_ticks", "dag_ticks", "dead", "start_calls", "stop_calls", "restart_calls", "start_schedule_matches",
                               "match_but_suspended", "match_but_running", "match_but_started_same_minute", "match_but_started_later",
                               "match_and_due", "stop_schedule_matches", "restart_schedule_matches")}
    unparsable = []
    for c, ho in zip(cases, houts):
        if c["k"] == "sim":
            try:
                monitor_sim(chk, c, ho, counters)
            except (ValueError, IndexError, KeyError) as e:
                # answers that do not parse: the harness process crashed inside an earlier case (reported there) and the
                # lines of the following cases are misaligned
                unparsable.append(c["id"])
        elif c["k"] == "ticks":
            w = ho[0].split(" ")
            exp = [str(c["now0"] // 60 * 60 + 60 * i) for i in range(len(c["nows"]))]
            if w[1:] != exp:
                chk.violation("C09:tick-sequence", "real loop ran ticks %s, expected consecutive minutes %s" % (w[1:], exp), c)
            chk.nontrivial.add(("ticks", c["now0"], tuple(c["nows"])))
    if unparsable:
        chk.oblige("monitor:every-case-answered-in-the-expected-form", False, "%d cases with unparsable answers (harness crashed mid-stream), e.g. %s" % (len(unparsable), unparsable[:3]))
    dist.update(counters)
    chk.stats = {"cases": len(cases), "distribution": dist, "legs": real_stats,
                 "sim_flavours": {f: sum(1 for c in cases if c.get("flavour") == f) for f in sorted({c.get("flavour") for c in cases if c.get("flavour")})}}
    chk.rule = ("expressions: weighted grammar (values, names in any case, ranges, steps, N/s, lists of 1-4, */s, ?), targeted to fire at a chosen minute, "
                "never-firing (31 Feb …), leap-day-only, robfig quirks (*-5, +5, empty list items, TZ= prefixes, odd spacing), invalid, random mutations; "
                "instants 1970-2100 with month ends, leap days, year ends, epoch; daemon cases: 1-5 files (single / list / start-stop-restart map incl. keys without a value (null) or with a wrong-typed value next to valued ones, each such file loaded 8-12 times; valid, "
                "an explicit `name:` different from / equal to another file's / equal to the own file id, suspended through the flag store by file id, invalid YAML, invalid cron, wrong types, panicking), 1-3 daemon lifetimes (restart in the same minute / "
                "minutes later / hours-years later), 1-5 ticks each with a wall clock 0 s-67 min late, files added/edited/removed through the real watcher, "
                "status per DAG per tick: never run / '-' / unreadable / running / EVERY final label (finished, failed, canceled, none-with-start-time) x started in the same minute, ±1 min, hours-years earlier, later; "
                "the real loop start() under a scripted late clock. non-trivial = a spec that fires at the queried minute, every Next query, and every "
                "(DAG, tick) with a matching schedule or an issued call; distinct = distinct (expressions, minute, status, suspended)")
    sims = [i for i, c in enumerate(cases) if c["k"] == "sim"]
    chk.samples = [{"case": cases[i]["id"], "flavour": cases[i].get("flavour"), "impl": houts[i][:6]} for i in sims[:3]] + \
                  [{"case": c["id"], "spec": c.get("spec"), "impl": ho[:1]} for c, ho in list(zip(cases, houts))[len(corpus()) + 1:len(corpus()) + 4]]
