#!/bin/sh
# Build the framework from files on disk only (offline).
set -e
cd "$(dirname "$0")"
exec python3 ./check --setup
